package modes

import (
	"encoding/json"
	"fmt"
	"reflect"
	"sort"
	"sync"
)

type pendModel struct {
	OK      bool   `json:"ok"`
	Enabled []bool `json:"enabled"`
	Callers []struct {
		I     int `json:"i"`
		ID    int `json:"id"`
		State struct {
			PC  string          `json:"pc"`
			Res json.RawMessage `json:"res"`
		} `json:"state"`
		Chan *[2]int `json:"chan"`
	} `json:"callers"`
	Stream [][2]int        `json:"stream"`
	Table  []int           `json:"table"`
	Rcv    json.RawMessage `json:"rcv"`
	Left   int             `json:"left"`
}

func (e *Env) pend(c *c05Case, labels [][]interface{}, cands [][]interface{}) (*pendModel, error) {
	var m pendModel
	if labels == nil {
		labels = [][]interface{}{}
	}
	if cands == nil {
		cands = [][]interface{}{}
	}
	err := e.Drv.Call(map[string]interface{}{"m": "pend", "incoming": c.Incoming, "labels": labels, "cands": cands,
		"ncallers": c.NCallers, "ids": c.IDs}, &m)
	return &m, err
}

func modelRes(raw json.RawMessage) string {
	var s string
	if json.Unmarshal(raw, &s) == nil {
		return s
	}
	var o struct {
		Resp [2]int `json:"resp"`
	}
	json.Unmarshal(raw, &o)
	return fmt.Sprintf("resp:%d:%d", o.Resp[0], o.Resp[1])
}

// c05Spec replays the schedule on the abstract specification — one map from command id to the
// pending call; a response is matched at the moment the receiver looks it up — and returns what
// each call may return and what the stream must hold.
func c05Spec(c *c05Case, implRejected map[int]bool) (stream [][2]int, delivered map[int][2]int, rejected map[int]bool, either map[int]bool) {
	pending := map[int]int{}
	delivered = map[int][2]int{}
	rejected = map[int]bool{}
	either = map[int]bool{}   // rejection or acceptance are both in order (see below)
	inFlight := map[int]int{} // id -> a call that registered under it and has not finished its clean-up
	stream = [][2]int{}
	next := 0
	for _, l := range c.Labels {
		switch l[0].(string) {
		case "register":
			i := int(asFloat(l[1]))
			id := c.CallerID[i]
			if _, busy := pending[id]; busy {
				rejected[i] = true
				continue
			}
			if j, ok := inFlight[id]; ok && j != i {
				// the previous holder's answer was matched but the holder has not returned yet:
				// the identifier may still count as in use
				either[i] = true
				if implRejected[i] {
					continue // the implementation took the other permitted course
				}
			}
			pending[id] = i
			inFlight[id] = i
		case "rcvLookup":
			if next >= len(c.Incoming) {
				continue
			}
			r := c.Incoming[next]
			next++
			if j, ok := pending[r[0]]; ok {
				delivered[j] = r
				delete(pending, r[0])
			} else {
				stream = append(stream, r)
			}
		case "cleanup":
			i := int(asFloat(l[1]))
			if j, ok := pending[c.CallerID[i]]; ok && j == i {
				delete(pending, c.CallerID[i])
			}
			if j, ok := inFlight[c.CallerID[i]]; ok && j == i {
				delete(inFlight, c.CallerID[i])
			}
		}
	}
	return
}

func c05Judge(e *Env, c *c05Case, o *c05Obs) error {
	e.Rep.Eval()
	if o.Note != "" {
		e.Rep.Violate("corr", "c05-corr-schedule", o.Note, map[string]interface{}{"case": c, "obs": o})
		return nil
	}
	// the statement, against the abstract specification
	implRejected := map[int]bool{}
	for _, cl := range o.Callers {
		if cl.Returned && cl.Res == "rejected" {
			implRejected[cl.I] = true
		}
	}
	wantStream, delivered, rejected, either := c05Spec(c, implRejected)
	for _, cl := range o.Callers {
		if !cl.Returned {
			continue
		}
		var id, tag int
		if n, _ := fmt.Sscanf(cl.Res, "resp:%d:%d", &id, &tag); n == 2 {
			e.Rep.Count("call returned a response")
			d, ok := delivered[cl.I]
			if id != c.CallerID[cl.I] {
				e.Rep.Violate("impl", "c05-foreign-response", fmt.Sprintf("call %d for command id %d returned the response with id %d", cl.I, c.CallerID[cl.I], id), map[string]interface{}{"case": c, "obs": o})
			} else if !ok || d[1] != tag {
				e.Rep.Violate("impl", "c05-foreign-response", fmt.Sprintf("call %d returned response tag %d, which was not the one matched to it", cl.I, tag), map[string]interface{}{"case": c, "obs": o})
			}
		}
		if rejected[cl.I] != (cl.Res == "rejected") && !either[cl.I] {
			e.Rep.Violate("impl", "c05-duplicate-id", fmt.Sprintf("call %d: duplicate-id rejection expected=%v, result %s", cl.I, rejected[cl.I], cl.Res), map[string]interface{}{"case": c, "obs": o})
		}
		if cl.Res == "rejected" {
			e.Rep.Count("call rejected: id in use")
		}
		if cl.Res == "ctxErr" {
			e.Rep.Count("call returned its context's error")
		}
	}
	if len(o.Stream) > 0 {
		e.Rep.Count("response surfaced on the stream")
	}
	if !reflect.DeepEqual(o.Stream, wantStream) {
		key, what := "c05-stream", fmt.Sprintf("response stream %v, the specification gives %v", o.Stream, wantStream)
		for _, r := range o.Stream {
			for j, d := range delivered {
				if d == r {
					key = "c05-own-response-to-stream"
					what = fmt.Sprintf("response (id %d, tag %d) arrived while call %d was pending under that id, and was put on the response stream instead of being handed to it (stream %v)", r[0], r[1], j, o.Stream)
				}
			}
		}
		e.Rep.Violate("impl", key, what, map[string]interface{}{"case": c, "obs": o})
	}
	// the model
	m, err := e.pend(c, c.Labels, nil)
	if err != nil {
		return err
	}
	if !m.OK {
		e.Rep.Violate("corr", "c05-corr-schedule", "the schedule was forced on the implementation but is not executable in the model", map[string]interface{}{"case": c, "obs": o})
		return nil
	}
	diff := ""
	for _, mc := range m.Callers {
		if mc.I >= len(o.Callers) {
			continue
		}
		ic := o.Callers[mc.I]
		done := mc.State.PC == "done"
		if done != ic.Returned {
			diff = fmt.Sprintf("call %d: model %s, implementation returned=%v", mc.I, mc.State.PC, ic.Returned)
		} else if done && modelRes(mc.State.Res) != ic.Res {
			diff = fmt.Sprintf("call %d: model result %s, implementation %s", mc.I, modelRes(mc.State.Res), ic.Res)
		}
	}
	ms := m.Stream
	if ms == nil {
		ms = [][2]int{}
	}
	if diff == "" && !reflect.DeepEqual(ms, o.Stream) {
		diff = fmt.Sprintf("stream: model %v, implementation %v", ms, o.Stream)
	}
	if diff == "" && len(m.Table) != o.Table {
		diff = fmt.Sprintf("table size: model %d, implementation %d", len(m.Table), o.Table)
	}
	if diff != "" {
		e.Rep.Violate("corr", "c05-corr", "pending table: "+diff, map[string]interface{}{"case": c, "obs": o, "model": m})
	}
	return nil
}

// c05Walk builds one schedule by a random walk over the labels the model enables.
func c05Walk(e *Env, c *c05Case, maxLen int) error {
	n := c.NCallers
	spawned := 0
	labels := [][]interface{}{}
	for len(labels) < maxLen {
		cands := [][]interface{}{}
		weights := []float64{}
		add := func(w float64, l ...interface{}) { cands = append(cands, l); weights = append(weights, w) }
		if spawned < n {
			add(2, "spawn", spawned, c.CallerID[spawned])
		}
		for i := 0; i < spawned; i++ {
			add(3, "register", i)
			add(3, "send", i, true)
			add(0.4, "send", i, false)
			add(1000, "take", i) // the select takes a ready response at once: forced when enabled
			add(1, "cancel", i)
			add(2, "cleanup", i)
		}
		add(3, "rcvLookup")
		add(3, "rcvDelete")
		add(3, "rcvHandoff")
		m, err := e.pend(c, labels, cands)
		if err != nil {
			return err
		}
		if !m.OK {
			return fmt.Errorf("harness: walk produced a non-executable prefix")
		}
		hasChan := map[int]bool{}
		for _, mc := range m.Callers {
			if mc.Chan != nil {
				hasChan[mc.I] = true
			}
		}
		total := 0.0
		for k := range cands {
			if !m.Enabled[k] {
				weights[k] = 0
			}
			// a cancellation racing with a ready response is a coin toss in the real select: not forced
			if cands[k][0] == "cancel" && hasChan[cands[k][1].(int)] {
				weights[k] = 0
			}
			total += weights[k]
		}
		if total == 0 {
			break
		}
		x := e.Rng.Float64() * total
		pick := 0
		for k := range cands {
			if weights[k] == 0 {
				continue
			}
			pick = k
			if x < weights[k] {
				break
			}
			x -= weights[k]
		}
		labels = append(labels, cands[pick])
		if cands[pick][0] == "spawn" {
			spawned++
		}
		if e.Rng.Intn(40) == 0 {
			break
		}
	}
	c.Labels = labels
	return nil
}

func lbl(l ...interface{}) []interface{} { return l }

func init() {
	Register("c05", func(e *Env) error {
		e.Rep.Rule = "gate-driven replay: schedules of the pending-table model's labelled steps (spawn / register / send ok|fail / take / cancel / clean-up of 2-4 ProcessCommand calls, 1-3 of them sharing a command id; receiver look-up / delete / hand-off of up to 6 incoming responses with known, duplicate and unknown ids) are drawn by random walks over the labels the model enables and forced on a real established ClientChannel (real TCP transport on an in-memory connection, real ServerChannel as peer) through the scheduling gates of the verif hook; per-call results, the response stream and the table size are diffed with the model and judged against the abstract specification (one map id -> pending call, a response matched at look-up). Plus the witness schedule of the former defect and an ungated stress run. Non-trivial = every schedule; distinct by schedule."
		if e.Drv == nil {
			return fmt.Errorf("c05 needs the model driver")
		}
		if e.Replay != "" {
			b, err := readReplayCase(e.Replay)
			if err != nil {
				return err
			}
			var bl struct {
				Family  string `json:"family"`
				Buffer  int    `json:"buffer"`
				Variant string `json:"variant"`
				Route   string `json:"route"`
			}
			if json.Unmarshal(b, &bl) == nil && bl.Family == "backlog" {
				return c05Backlog(e, bl.Buffer, bl.Variant, bl.Route)
			}
			var fam struct {
				Family string `json:"family"`
				How    string `json:"how"`
				Route  string `json:"route"`
			}
			if json.Unmarshal(b, &fam) == nil && fam.Family == "answer-then-end" {
				return c05AnswerThenEnd(e, fam.How, fam.Route)
			}
			if json.Unmarshal(b, &fam) == nil && fam.Family == "similar-ids" {
				return c05SimilarIDs(e, fam.Route)
			}
			var wrap struct {
				Case *c05Case `json:"case"`
			}
			if err := json.Unmarshal(b, &wrap); err != nil || wrap.Case == nil {
				return fmt.Errorf("bad replay file")
			}
			if wrap.Case.Labels == nil {
				return c05Stress(e, 1)
			}
			o := c05Run(wrap.Case)
			return c05Judge(e, wrap.Case, &o)
		}
		// the witness of the former defect (before the repair) and its counterpart on repaired code
		wit := [][][]interface{}{
			{lbl("spawn", 0, 7), lbl("register", 0), lbl("send", 0, true), lbl("rcvLookup"), lbl("cancel", 0), lbl("cleanup", 0),
				lbl("spawn", 1, 7), lbl("register", 1), lbl("send", 1, true), lbl("rcvDelete"), lbl("rcvHandoff"), lbl("rcvLookup")},
			{lbl("spawn", 0, 7), lbl("register", 0), lbl("send", 0, true), lbl("rcvLookup"), lbl("cancel", 0), lbl("cleanup", 0),
				lbl("spawn", 1, 7), lbl("register", 1), lbl("send", 1, true), lbl("rcvHandoff"), lbl("rcvLookup"), lbl("rcvHandoff"), lbl("take", 1), lbl("cleanup", 1)},
			// the late answer is handed to the cancelled call; its deferred clean-up must not remove the next registration
			{lbl("spawn", 0, 7), lbl("register", 0), lbl("send", 0, true), lbl("cancel", 0), lbl("rcvLookup"), lbl("rcvHandoff"),
				lbl("spawn", 1, 7), lbl("register", 1), lbl("send", 1, true), lbl("cleanup", 0), lbl("rcvLookup"), lbl("rcvHandoff"), lbl("take", 1), lbl("cleanup", 1)},
			{lbl("spawn", 0, 7), lbl("register", 0), lbl("send", 0, true), lbl("cancel", 0), lbl("rcvLookup"), lbl("rcvDelete"), lbl("rcvHandoff"),
				lbl("spawn", 1, 7), lbl("register", 1), lbl("send", 1, true), lbl("cleanup", 0), lbl("rcvLookup")},
		}
		var cases []*c05Case
		for _, w := range wit {
			c := &c05Case{Incoming: [][2]int{{7, 100}, {7, 200}}, Labels: w, NCallers: 2, IDs: []int{7}, CallerID: []int{7, 7}}
			m, err := e.pend(c, c.Labels, nil)
			if err != nil {
				return err
			}
			if m.OK {
				e.Rep.Count("witness schedule executable in the model")
				cases = append(cases, c)
			}
		}
		shapes := [][]int{{7, 7}, {7, 7, 8}, {7, 7, 7}, {7, 8, 7, 8}}
		for i := 0; i < e.N(1200, 40000); i++ {
			ids := shapes[e.Rng.Intn(len(shapes))]
			c := &c05Case{NCallers: len(ids), CallerID: ids, IDs: []int{7, 8, 9}}
			for k := 0; k < 1+e.Rng.Intn(6); k++ {
				c.Incoming = append(c.Incoming, [2]int{[]int{7, 7, 7, 8, 9}[e.Rng.Intn(5)], 100 + k})
			}
			if err := c05Walk(e, c, 34); err != nil {
				return err
			}
			cases = append(cases, c)
		}
		obs := make([]c05Obs, len(cases))
		var wg sync.WaitGroup
		sem := make(chan struct{}, 12)
		for i := range cases {
			wg.Add(1)
			sem <- struct{}{}
			go func(i int) {
				defer wg.Done()
				defer func() { <-sem }()
				obs[i] = c05Run(cases[i])
			}(i)
		}
		wg.Wait()
		lens := []int{}
		for i, c := range cases {
			cj, _ := json.Marshal(c)
			e.Rep.Nontrivial(string(cj))
			e.Rep.Sample(map[string]interface{}{"case": c, "obs": obs[i]}, 2)
			lens = append(lens, len(c.Labels))
			for _, l := range c.Labels {
				e.Rep.Count("step=" + l[0].(string))
			}
			if err := c05Judge(e, c, &obs[i]); err != nil {
				return err
			}
		}
		sort.Ints(lens)
		if len(lens) > 0 {
			e.Rep.Extra["schedule_length_median"] = lens[len(lens)/2]
			e.Rep.Extra["schedule_length_max"] = lens[len(lens)-1]
		}
		return c05Stress(e, e.N(6, 120))
	})
}

// c05Stress: ungated run — many concurrent ProcessCommand calls, responses permuted, duplicated,
// dropped, late, with unknown ids; cancellations at random times. Judged by the statement.
func c05Stress(e *Env, rounds int) error {
	var bwg sync.WaitGroup
	var bmu sync.Mutex
	var berr error
	for _, buf := range []int{1, 3} {
		for _, variant := range []string{"unknown", "late", "dup"} {
			for _, route := range []string{"pipe", "inproc"} {
				bwg.Add(1)
				go func(buf int, variant, route string) {
					defer bwg.Done()
					if err := c05Backlog(e, buf, variant, route); err != nil {
						bmu.Lock()
						berr = err
						bmu.Unlock()
					}
				}(buf, variant, route)
			}
		}
	}
	for _, route := range []string{"pipe", "inproc"} {
		for _, how := range []string{"finish", "fail", "drop"} {
			bwg.Add(1)
			go func(how, route string) {
				defer bwg.Done()
				if err := c05AnswerThenEnd(e, how, route); err != nil {
					bmu.Lock()
					berr = err
					bmu.Unlock()
				}
			}(how, route)
		}
		bwg.Add(1)
		go func(route string) {
			defer bwg.Done()
			if err := c05SimilarIDs(e, route); err != nil {
				bmu.Lock()
				berr = err
				bmu.Unlock()
			}
		}(route)
	}
	bwg.Wait()
	if berr != nil {
		return berr
	}
	for round := 0; round < rounds; round++ {
		if err := c05StressRound(e, round); err != nil {
			return err
		}
	}
	return nil
}
