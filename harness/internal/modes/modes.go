// Package modes holds one harness mode per property (or group of properties).
package modes

import (
	"math/rand"

	"limeverif/internal/drv"
	"limeverif/internal/rep"
)

// Env is what a mode gets to work with.
type Env struct {
	Tier     string // quick | thorough
	Seed     int64
	Rng      *rand.Rand
	Rep      *rep.Report
	Drv      *drv.Driver // nil when the model driver is unavailable (impl-oracle-only run)
	Replay   string      // path of a replay file to re-run, or ""
	Budget   float64     // scale factor for case counts (VERIF_BUDGET, default 1)
}

func (e *Env) Thorough() bool { return e.Tier == "thorough" }

// N picks the quick or thorough count, scaled.
func (e *Env) N(quick, thorough int) int {
	n := quick
	if e.Thorough() {
		n = thorough
	}
	n = int(float64(n) * e.Budget)
	if n < 1 {
		n = 1
	}
	return n
}

type Mode func(e *Env) error

var Registry = map[string]Mode{}

func Register(name string, m Mode) { Registry[name] = m }
