package modes

import (
	"context"
	"os"
	"runtime"
	"encoding/json"
	"fmt"
	"strings"
	"sync"
	"sync/atomic"
	"time"

	lime "github.com/takenet/lime-go"
)

// ---- C13: sessions end cleanly in both directions and release what waits on them --------------

type c13Case struct {
	Transport  string `json:"transport"` // inproc | tcp | ws
	Initiator  string `json:"initiator"` // client-finish | server-finish | server-fail | client-close | server-close
	Buf        int    `json:"buf"`
	CliSenders int    `json:"cli_senders"`
	SrvSenders int    `json:"srv_senders"`
	DelayUs    int    `json:"delay_us"` // traffic time before the end is requested
	Seed       int64  `json:"seed"`
	RespOnly   bool   `json:"resp_only"` // the senders send nothing but unmatched response commands
}

type c13Res struct {
	Problems []string `json:"problems"`
	Notes    []string `json:"notes,omitempty"`
	CallErr  string   `json:"call_err,omitempty"`
	Leaked   []string `json:"leaked,omitempty"`
	TookMs   int      `json:"took_ms"`
}

func runC13Case(c *c13Case) (res c13Res) {
	res.Problems = []string{}
	t0 := time.Now()
	defer func() { res.TookMs = int(time.Since(t0) / time.Millisecond) }()
	problem := func(f string, a ...interface{}) { res.Problems = append(res.Problems, fmt.Sprintf(f, a...)) }
	var mu sync.Mutex
	var srvChan *lime.ServerChannel
	estCh := make(chan struct{}, 4)
	finished := int32(0)             // Finished callbacks for the first session
	finishedBy := map[string]int{} // per session id
	firstSid := ""
	b := lime.NewServerBuilder().Name("postmaster").Domain("c13.local").Instance("srv").
		EnablePlainAuthentication(func(context.Context, lime.Identity, string) (*lime.AuthenticationResult, error) {
			return lime.MemberAuthenticationResult(), nil
		}).ChannelBufferSize(c.Buf).
		Established(func(sid string, sc *lime.ServerChannel) {
			mu.Lock()
			if firstSid == "" {
				firstSid = sid
				srvChan = sc
			}
			mu.Unlock()
			if c.Initiator == "client-close-at-once" {
				// traffic towards the client from the first moment of the session
				go func() {
					for i := 0; i < 3; i++ {
						m := &lime.Message{}
						m.ID = fmt.Sprint("early-", i)
						m.SetContent(lime.TextDocument("early"))
						sctx, scancel := context.WithTimeout(context.Background(), 2*time.Second)
						_ = sc.SendMessage(sctx, m)
						scancel()
					}
				}()
			}
			estCh <- struct{}{}
		}).
		Finished(func(sid string) {
			mu.Lock()
			finishedBy[sid]++
			first := sid == firstSid
			mu.Unlock()
			if first {
				atomic.AddInt32(&finished, 1)
			}
		}).
		MessagesHandlerFunc(func(context.Context, *lime.Message, lime.Sender) error { return nil }).
		NotificationsHandlerFunc(func(context.Context, *lime.Notification) error { return nil })
	var dial func(ctx context.Context) (lime.Transport, error)
	cb := lime.NewClientBuilder().Name("alice").Domain("c13.local").Instance("home").PlainAuthentication("secret").
		ChannelBufferSize(c.Buf).Encryption(lime.SessionEncryptionNone).
		MessagesHandlerFunc(func(context.Context, *lime.Message, lime.Sender) error { return nil })
	switch c.Transport {
	case "inproc":
		addr := lime.InProcessAddr(fmt.Sprintf("c13-%d", atomic.AddInt64(&srvSeq, 1)))
		b.ListenInProcess(addr)
		dial = func(context.Context) (lime.Transport, error) { return lime.DialInProcess(addr, c.Buf+1) }
		cb.UseInProcess(addr, c.Buf+1)
	case "tcp":
		a, err := freePort()
		if err != nil {
			problem("harness: %v", err)
			return
		}
		b.ListenTCP(a, nil)
		dial = func(ctx context.Context) (lime.Transport, error) { return lime.DialTcp(ctx, a, nil) }
		cb.UseTCP(a, nil)
	case "ws":
		a, err := freePort()
		if err != nil {
			problem("harness: %v", err)
			return
		}
		b.ListenWebsocket(a, nil)
		url := "ws://" + a.String()
		dial = func(ctx context.Context) (lime.Transport, error) { return lime.DialWebsocket(ctx, url, nil, nil) }
		cb.UseWebsocket(url, nil, nil)
	}
	srv := b.Build()
	serveDone := make(chan error, 1)
	go func() { serveDone <- srv.ListenAndServe() }()
	defer func() {
		_ = srv.Close()
		select {
		case <-serveDone:
		case <-time.After(10 * time.Second):
			problem("ListenAndServe did not return")
		}
		// nothing of the library may be left (TCP receivers wake on the 5 s read poll)
		deadline := time.Now().Add(8 * time.Second)
		for {
			res.Leaked = limeGoroutines()
			if len(res.Leaked) == 0 || time.Now().After(deadline) {
				break
			}
			time.Sleep(10 * time.Millisecond)
		}
		if len(res.Leaked) > 0 {
			problem("%d goroutine(s) of the library left after both sides closed, first at %s", len(res.Leaked), res.Leaked[0])
			if os.Getenv("VERIF_SLOW") != "" {
				buf := make([]byte, 1<<20)
				n := runtime.Stack(buf, true)
				fmt.Fprintf(os.Stderr, "%s\n", buf[:n])
			}
		}
	}()
	ctx, cancel := context.WithTimeout(context.Background(), 30*time.Second)
	defer cancel()

	highLevel := c.Initiator == "client-close" || c.Initiator == "client-close-at-once"
	var cc *lime.ClientChannel
	var ct lime.Transport
	var client *lime.Client
	var consumersDone sync.WaitGroup
	if highLevel {
		client = cb.Build()
		var err error
		for i := 0; i < 100; i++ {
			ectx, ecancel := context.WithTimeout(ctx, 3*time.Second)
			err = client.Establish(ectx)
			ecancel()
			if err == nil {
				break
			}
			time.Sleep(5 * time.Millisecond)
		}
		if err != nil {
			problem("harness: client establish: %v", err)
			_ = client.Close()
			return
		}
	} else {
		var err error
		for i := 0; i < 200; i++ {
			ct, err = dial(ctx)
			if err == nil {
				break
			}
			time.Sleep(3 * time.Millisecond)
		}
		if err != nil {
			problem("harness: dial: %v", err)
			return
		}
		cc = lime.NewClientChannel(ct, c.Buf)
		ses, err := cc.EstablishSession(ctx, lime.NoneCompressionSelector, lime.NoneEncryptionSelector,
			lime.Identity{Name: "alice", Domain: "c13.local"},
			func([]lime.AuthenticationScheme, lime.Authentication) lime.Authentication {
				a := &lime.PlainAuthentication{}
				a.SetPasswordAsBase64("secret")
				return a
			}, "home")
		if err != nil || ses.State != lime.SessionStateEstablished {
			problem("harness: establish: %v", err)
			return
		}
		// the observer keeps consuming its inbound streams; each consumer returns when its stream is closed
		consumersDone.Add(4)
		go func() {
			defer consumersDone.Done()
			for range cc.MsgChan() {
			}
		}()
		go func() {
			defer consumersDone.Done()
			for range cc.NotChan() {
			}
		}()
		go func() {
			defer consumersDone.Done()
			for range cc.ReqCmdChan() {
			}
		}()
		go func() {
			defer consumersDone.Done()
			for range cc.RespCmdChan() {
			}
		}()
	}
	atOnce := c.Initiator == "client-close-at-once"
	if !atOnce {
		select {
		case <-estCh:
		case <-time.After(5 * time.Second):
			problem("harness: the server never reported the session")
			return
		}
	}
	mu.Lock()
	sc := srvChan
	mu.Unlock()

	// traffic in both directions while the end is requested
	var stop int32
	var senders sync.WaitGroup
	// every kind of envelope is in flight, unmatched response commands included
	type anySender interface {
		SendMessage(context.Context, *lime.Message) error
		SendNotification(context.Context, *lime.Notification) error
		SendRequestCommand(context.Context, *lime.RequestCommand) error
	}
	type respSender interface {
		SendResponseCommand(context.Context, *lime.ResponseCommand) error
	}
	send := func(sn anySender, salt int) {
		defer senders.Done()
		for i := 0; atomic.LoadInt32(&stop) == 0; i++ {
			sctx, scancel := context.WithTimeout(ctx, 2*time.Second)
			var err error
			kind := (i + salt) % 4
			if c.RespOnly {
				kind = 3
			}
			switch kind {
			case 0:
				m := &lime.Message{}
				m.ID = fmt.Sprint(i)
				m.SetContent(lime.TextDocument("traffic"))
				err = sn.SendMessage(sctx, m)
			case 1:
				n := &lime.Notification{Event: lime.NotificationEventReceived}
				n.ID = fmt.Sprint(i)
				err = sn.SendNotification(sctx, n)
			case 2:
				r := &lime.RequestCommand{}
				r.ID = fmt.Sprint("q", i)
				r.Method = lime.CommandMethodGet
				r.SetURIString("/x")
				err = sn.SendRequestCommand(sctx, r)
			default:
				if rs, ok := sn.(respSender); ok {
					r := &lime.ResponseCommand{Status: lime.CommandStatusSuccess}
					r.ID = fmt.Sprint("nobody-asked-", i)
					r.Method = lime.CommandMethodGet
					err = rs.SendResponseCommand(sctx, r)
				}
			}
			scancel()
			if err != nil {
				return
			}
			if i%4 == 0 {
				time.Sleep(20 * time.Microsecond)
			}
		}
	}
	for i := 0; i < c.CliSenders; i++ {
		senders.Add(1)
		if highLevel {
			go send(client, i)
		} else {
			go send(cc, i)
		}
	}
	for i := 0; i < c.SrvSenders && !atOnce; i++ {
		senders.Add(1)
		go send(sc, i)
	}
	if !atOnce {
		time.Sleep(time.Duration(c.DelayUs) * time.Microsecond)
	}

	// ---- the end is requested
	tctx, tcancel := context.WithTimeout(ctx, 12*time.Second)
	var callErr error
	wantState := lime.SessionStateFinished
	switch c.Initiator {
	case "client-finish":
		var ses *lime.Session
		ses, callErr = cc.FinishSession(tctx)
		if callErr == nil && (ses == nil || ses.State != lime.SessionStateFinished) {
			problem("client FinishSession returned %+v, want the finished session", ses)
		}
	case "server-finish":
		callErr = sc.FinishSession(tctx)
	case "server-fail":
		callErr = sc.FailSession(tctx, &lime.Reason{Code: 42, Description: "scripted"})
		wantState = lime.SessionStateFailed
	case "server-finish-expired", "server-fail-expired":
		// the terminal envelope cannot be sent (the context of the call is over): the session is
		// over all the same, and the connection released
		ectx, ecancel := context.WithCancel(context.Background())
		ecancel()
		if c.Initiator == "server-finish-expired" {
			_ = sc.FinishSession(ectx)
		} else {
			_ = sc.FailSession(ectx, &lime.Reason{Code: 42, Description: "scripted"})
			wantState = lime.SessionStateFailed
		}
	case "client-close", "client-close-at-once":
		callErr = client.Close()
	case "server-close":
		callErr = srv.Close()
	}
	tcancel()
	atomic.StoreInt32(&stop, 1)
	if callErr != nil {
		res.CallErr = callErr.Error()
		if strings.HasPrefix(c.Initiator, "server-f") && (strings.Contains(callErr.Error(), "not open") || strings.Contains(callErr.Error(), "closed network connection")) {
			// the party that stops serving the session closed the connection a moment before the
			// terminating call did: the call reports that its own close found it closed; what the
			// statement asks of the call is checked below (state, connection, peer released)
			res.Notes = append(res.Notes, c.Initiator+" returned: "+callErr.Error())
		} else if c.Initiator == "server-close" {
			// Server.Close reports what its listeners report on closing (a WebSocket listener closes
			// its socket twice and says so); the statement makes no claim about that value
			res.Notes = append(res.Notes, "Server.Close returned: "+callErr.Error())
		} else {
			problem("the terminating call (%s) returned an error: %v", c.Initiator, callErr)
		}
	}
	// ---- the initiator's connection is closed by the terminating call
	switch c.Initiator {
	case "client-finish":
		if ct.Connected() {
			problem("client FinishSession returned and the client's transport is still connected")
		}
		if st := cc.State(); st != lime.SessionStateFinished {
			problem("client FinishSession returned and the client's state is %v", st)
		}
	case "server-finish", "server-fail", "server-finish-expired", "server-fail-expired":
		if sc.Established() {
			problem("%s returned and the server channel still reports established", c.Initiator)
		}
		if st := sc.State(); st != wantState {
			problem("%s returned and the server's state is %v", c.Initiator, st)
		}
	}
	// ---- the peer observes the terminal envelope and moves to the terminal state; its streams are closed
	expired := strings.HasSuffix(c.Initiator, "-expired")
	if !highLevel && c.Initiator != "client-finish" {
		select {
		case <-cc.RcvDone():
		case <-time.After(9 * time.Second):
			problem("the client's receiver-done signal was not closed within 9 s after %s", c.Initiator)
		}
		// (when the terminal envelope could not be sent, or lost the race with the cancelled context,
		// the client only sees the connection end)
		if st := cc.State(); st != wantState && !expired {
			problem("after %s the client's state is %v, want %v", c.Initiator, st, wantState)
		}
	}
	if !highLevel {
		cd := make(chan struct{})
		go func() { consumersDone.Wait(); close(cd) }()
		select {
		case <-cd:
		case <-time.After(9 * time.Second):
			problem("a consumer of the client's inbound streams is still blocked 9 s after %s: a stream was not closed", c.Initiator)
		}
	}
	if atOnce {
		mu.Lock()
		sc = srvChan
		mu.Unlock()
	}
	if c.Initiator == "client-finish" || c.Initiator == "client-close" || (atOnce && sc != nil) {
		// the server observes the finishing envelope, answers and ends: Finished callback, state
		deadline := time.Now().Add(9 * time.Second)
		for atomic.LoadInt32(&finished) == 0 && time.Now().Before(deadline) {
			time.Sleep(200 * time.Microsecond)
		}
		if atomic.LoadInt32(&finished) != 1 {
			problem("after %s the server's Finished callback ran %d times", c.Initiator, atomic.LoadInt32(&finished))
		}
		if st := sc.State(); st != lime.SessionStateFinished {
			problem("after %s the server channel's state is %v", c.Initiator, st)
		}
	}
	// ---- every sender returns
	sd := make(chan struct{})
	go func() { senders.Wait(); close(sd) }()
	select {
	case <-sd:
	case <-time.After(9 * time.Second):
		problem("a sender is still blocked 9 s after the session ended")
	}
	// ---- the observing side closes its channel; then nothing may be left (census in the deferred part)
	if client != nil {
		// a sender that was still running when Close returned has made the client establish a new
		// session (a closed Client reconnects on use): that one is the harness's to close
		_ = client.Close()
	}
	if cc != nil {
		_ = cc.Close()
		if ct.Connected() {
			problem("the client's transport is still connected after its channel was closed")
		}
	}
	if c.Initiator != "server-close" && !strings.HasPrefix(c.Initiator, "server-f") {
		deadline := time.Now().Add(9 * time.Second)
		for atomic.LoadInt32(&finished) == 0 && time.Now().Before(deadline) {
			time.Sleep(200 * time.Microsecond)
		}
	}
	mu.Lock()
	for sid, n := range finishedBy {
		if n > 1 {
			problem("the Finished callback ran %d times for session %s", n, sid)
		}
	}
	mu.Unlock()
	return
}

func c13Key(p string) string {
	switch {
	case strings.Contains(p, "harness:"):
		return "c13-harness"
	case strings.Contains(p, "terminating call"):
		return "c13-call-error"
	case strings.Contains(p, "still connected"):
		return "c13-not-closed"
	case strings.Contains(p, "goroutine"):
		return "c13-leak"
	case strings.Contains(p, "state is"):
		return "c13-state"
	case strings.Contains(p, "receiver-done") || strings.Contains(p, "stream was not closed"):
		return "c13-not-released"
	case strings.Contains(p, "sender is still blocked"):
		return "c13-sender-blocked"
	case strings.Contains(p, "Finished callback"):
		return "c13-finished-callback"
	}
	return "c13-other"
}

func init() {
	Register("c13child", func(e *Env) error {
		ReadChildCases(func(n int, raw json.RawMessage) {
			var c c13Case
			if err := json.Unmarshal(raw, &c); err != nil {
				return
			}
			ChildBegin(n, &c)
			res := runC13Case(&c)
			ChildEnd(n, res)
		})
		return nil
	})
	Register("c13", func(e *Env) error {
		e.Rep.Rule = "real Server (in-process, TCP, WebSocket listener) and a real client (raw ClientChannel, or the high-level Client for Client.Close); the end of an established session is requested by client FinishSession, server FinishSession, server FailSession, Client.Close or Server.Close after a random stretch of traffic from 0-4 senders per side, with stream buffers 0 / 1 / 64; observed: the terminating call's result, the initiator's connection, the observer's state, receiver-done signal and inbound streams (consumers must return), the Finished callback, senders returning, and a goroutine census after both sides have closed; every round in a child process. Non-trivial = every round; distinct by (case, outcome)."
		cases := []interface{}{}
		if e.Replay != "" {
			b, err := readReplayCase(e.Replay)
			if err != nil {
				return err
			}
			var wrap struct {
				Case *c13Case `json:"case"`
			}
			if err := json.Unmarshal(b, &wrap); err != nil || wrap.Case == nil {
				return fmt.Errorf("bad replay file")
			}
			for i := 0; i < 12; i++ {
				cases = append(cases, wrap.Case)
			}
		} else {
			trs := []string{"inproc", "tcp", "ws"}
			inits := []string{"client-finish", "server-finish", "server-fail", "client-close", "server-close", "client-close-at-once", "server-finish-expired", "server-fail-expired"}
			n := e.N(120, 2400)
			for i := 0; i < n; i++ {
				c := &c13Case{Transport: trs[i%3], Initiator: inits[(i/3)%8], Buf: []int{0, 1, 64}[e.Rng.Intn(3)],
					CliSenders: e.Rng.Intn(5), SrvSenders: e.Rng.Intn(5), DelayUs: []int{0, 50, 300, 2000}[e.Rng.Intn(4)], Seed: e.Seed*100000 + int64(i)}
				cases = append(cases, c)
			}
			// the terminating side has nothing but unmatched response commands coming in, and no room
			for _, tr := range trs {
				for _, ini := range []string{"server-close", "server-finish", "server-fail"} {
					cases = append(cases, &c13Case{Transport: tr, Initiator: ini, Buf: 0, CliSenders: 3, SrvSenders: 0, DelayUs: 2000, RespOnly: true, Seed: e.Seed})
				}
			}
		}
		workers := 12
		chunks := make([][]interface{}, workers)
		for i, c := range cases {
			chunks[i%workers] = append(chunks[i%workers], c)
		}
		type retryItem struct {
			c   c13Case
			res c13Res
		}
		var retry []retryItem
		var wg sync.WaitGroup
		var mu sync.Mutex
		var firstErr error
		for _, ch := range chunks {
			if len(ch) == 0 {
				continue
			}
			wg.Add(1)
			go func(ch []interface{}) {
				defer wg.Done()
				rs, err := RunChild("c13child", ch, 120*time.Second)
				mu.Lock()
				defer mu.Unlock()
				if err != nil && firstErr == nil {
					firstErr = err
				}
				for _, r := range rs {
					e.Rep.Eval()
					var c c13Case
					json.Unmarshal(r.Case, &c)
					e.Rep.Count("initiator=" + c.Initiator)
					e.Rep.Count("transport=" + c.Transport)
					if r.Res == nil {
						e.Rep.Count("outcome=crash")
						e.Rep.Violate("impl", "c13-panic", "process died: "+r.Crash, map[string]interface{}{"case": c, "crash": r.Crash})
						continue
					}
					var res c13Res
					json.Unmarshal(r.Res, &res)
					e.Rep.Nontrivial(string(r.Case))
					e.Rep.Sample(map[string]interface{}{"case": c, "res": res}, 2)
					if len(res.Problems) == 0 {
						e.Rep.Count("outcome=ok")
					}
					hard := false
					for _, p := range res.Problems {
						if c13Key(p) != "c13-harness" {
							hard = true
						}
					}
					if hard {
						retry = append(retry, retryItem{c, res})
					}
					for _, p := range res.Problems {
						if c13Key(p) == "c13-harness" {
							e.Rep.Note(p)
						}
					}
				}
			}(ch)
		}
		wg.Wait()
		// A round that failed while eleven other processes were hammering the machine is run again
		// on its own, three times; what shows up again is reported (timing limits of the library -
		// the one-second budget of the server's final FinishSession, the five seconds of
		// Client.Close - are not the subject of this property).
		for _, it := range retry {
			reproduced := false
			for k := 0; k < 3 && !reproduced; k++ {
				c := it.c
				rs, err := RunChild("c13child", []interface{}{&c}, 120*time.Second)
				if err != nil || len(rs) == 0 {
					continue
				}
				if rs[0].Res == nil {
					e.Rep.Violate("impl", "c13-panic", "process died: "+rs[0].Crash, map[string]interface{}{"case": c, "crash": rs[0].Crash})
					reproduced = true
					break
				}
				var res c13Res
				json.Unmarshal(rs[0].Res, &res)
				for _, p := range res.Problems {
					k := c13Key(p)
					if k == "c13-harness" {
						continue
					}
					reproduced = true
					e.Rep.Count("outcome=" + k)
					e.Rep.Violate("impl", k, fmt.Sprintf("[%s over %s, buf %d, senders %d/%d] %s", c.Initiator, c.Transport, c.Buf, c.CliSenders, c.SrvSenders, p), map[string]interface{}{"case": c, "res": res})
				}
			}
			if !reproduced {
				e.Rep.Count("outcome=failed once under load, not reproduced in isolation")
				e.Rep.Note(fmt.Sprintf("not reproduced in isolation: %+v: %v", it.c, it.res.Problems))
			}
		}
		return firstErr
	})
}
