package modes

import (
	"encoding/json"
	"fmt"

	"limeverif/internal/codec"
)

// ---- C01: envelope JSON round trip ----------------------------------------------------------

// roundTripCase runs one generated value through encode, typed decode and the receive path on
// the implementation and on the model, diffs them, and evaluates the round-trip statement on the
// implementation when the model's well-formedness predicate holds.
func roundTripCase(e *Env, v *codec.VEnv, prop string) error {
	e.Rep.Eval()
	ie, bytes, perr := implEncode(v)
	e.Rep.Count("kind=" + v.Kind)
	e.Rep.Count("enc=" + ie.R)
	vb, _ := json.Marshal(v)
	wf := false
	if e.Drv != nil {
		me, err := e.modelEnc(v)
		if err != nil {
			return err
		}
		if ok, why := sameEnc(ie, me); !ok {
			e.Rep.Violate("corr", prop+"-enc-corr", "model and implementation encode differently: "+why,
				map[string]interface{}{"value": v, "impl": ie, "model": me, "impl_error": perr})
		}
		var w struct {
			WF bool `json:"wf"`
		}
		if err := e.Drv.Call(map[string]interface{}{"m": "wf", "env": v}, &w); err != nil {
			return err
		}
		wf = w.WF
	}
	e.Rep.Count(fmt.Sprintf("wf=%v", wf))
	if ie.R == "panic" {
		e.Rep.Violate("impl", prop+"-enc-panic", "encoding panics: "+perr, map[string]interface{}{"value": v})
		return nil
	}
	if ie.R != "ok" {
		if wf {
			e.Rep.Violate("impl", prop+"-wf-enc", "a well-formed envelope does not encode: "+perr, map[string]interface{}{"value": v})
		}
		return nil
	}
	canonV, _ := codec.CanonValue(vb)
	rxBytesBefore := 0
	if rx != nil {
		rxBytesBefore = rx.bytes
	}
	for _, route := range []string{"typed", "receive"} {
		var io decObs
		var perr string
		kind := v.Kind
		if route == "typed" {
			io, _, perr = implDecodeTyped(v.Kind, bytes)
		} else {
			io, _, perr = implReceive(bytes)
			kind = "any"
		}
		e.Rep.Count("dec-" + route + "=" + io.R)
		if e.Drv != nil {
			mo, err := e.modelDec(kind, ie.JSON)
			if err != nil {
				return err
			}
			if ok, why := sameDec(io, mo); !ok {
				e.Rep.Violate("corr", prop+"-dec-corr", "model and implementation decode ("+route+") differently: "+why,
					map[string]interface{}{"value": v, "wire": string(bytes), "impl": io, "model": mo, "impl_error": perr})
			}
		}
		if io.R == "panic" {
			e.Rep.Violate("impl", "decode-panic", "decoding ("+route+") panics: "+perr, map[string]interface{}{"value": v, "wire": string(bytes)})
			continue
		}
		if wf {
			if io.R != "ok" {
				e.Rep.Violate("impl", prop+"-wf-dec", "the encoding of a well-formed envelope is rejected by the "+route+" decoder: "+perr,
					map[string]interface{}{"value": v, "wire": string(bytes), "rx_bytes_before": rxBytesBefore})
				continue
			}
			got, _ := codec.CanonValue(io.Env)
			if got != canonV {
				e.Rep.Violate("impl", prop+"-wf-roundtrip", "round trip ("+route+") changes a well-formed envelope: got "+got+" want "+canonV,
					map[string]interface{}{"value": v, "wire": string(bytes)})
			}
		}
	}
	if wf {
		e.Rep.Nontrivial(canonV)
	}
	e.Rep.Sample(map[string]interface{}{"value": v, "wire": string(bytes), "wf": wf}, 3)
	return nil
}

func init() {
	Register("c01", func(e *Env) error {
		e.Rep.Rule = "generated envelope values (5 kinds x uniformly drawn optional-member masks x documents nested to depth 3 (6 thorough) x strings with escapes, unicode and separators x all enum members; 15% ill-formed choices) go through the real json.Marshal, the typed decoders and the real TCP receive path (hook connection), and through the model's encode / decodeTyped / decodeAny; observations are diffed and the round-trip statement is evaluated on the implementation whenever the model's wf predicate (the theorem's hypothesis) holds. Non-trivial = well-formed value; distinct = distinct canonical values. Text forms: every string over {a,b,@,/,+,é} up to length 5 (6 thorough) through ParseNode/ParseIdentity/ParseMediaType and their String methods."
		if e.Replay != "" {
			b, err := readReplayCase(e.Replay)
			if err != nil {
				return err
			}
			var wrap struct {
				Value  *codec.VEnv `json:"value"`
				Text   *string     `json:"text"`
				Before int         `json:"rx_bytes_before"`
			}
			if err := json.Unmarshal(b, &wrap); err != nil {
				return err
			}
			if wrap.Text != nil {
				return textCase(e, *wrap.Text)
			}
			if wrap.Value == nil {
				return fmt.Errorf("replay file has no value")
			}
			// a failure on the shared receive transport may depend on how much was received
			// before: feed that many bytes of small valid envelopes first
			filler := []byte(`{"id":"filler","state":"new"}`)
			for fed := 0; fed < wrap.Before; fed += len(filler) + 1 {
				implReceive(filler)
			}
			return roundTripCase(e, wrap.Value, "c01")
		}
		depth := 3
		if e.Thorough() {
			depth = 6
		}
		g := &codec.Gen{R: e.Rng, Depth: depth, Wild: 0.15}
		n := e.N(4000, 200000)
		for i := 0; i < n; i++ {
			if i == n/2 {
				g.Wild = 0.02
			}
			if err := roundTripCase(e, g.Envelope(), "c01"); err != nil {
				return err
			}
		}
		return textEnumeration(e)
	})
}
