package modes

import (
	"context"
	"encoding/json"
	"errors"
	"fmt"
	"strconv"
	"strings"
	"sync"
	"sync/atomic"
	"time"

	lime "github.com/takenet/lime-go"

	"limeverif/internal/pair"
)

// ---- C05: command responses are matched to their requests -------------------------------------
//
// Gate-driven replay: a schedule of labelled steps of the pending-table model (one step per lock
// region / channel operation) is forced on the real channel through the scheduling gates of the
// verif hook; results per call, the response stream and the table size are diffed with the model.

type c05Case struct {
	Incoming [][2]int        `json:"incoming"` // (command id, tag) in arrival order
	Labels   [][]interface{} `json:"labels"`
	NCallers int             `json:"ncallers"`
	IDs      []int           `json:"ids"`
	CallerID []int           `json:"caller_id"` // command id used by caller i
}

type c05CallerObs struct {
	I        int    `json:"i"`
	Returned bool   `json:"returned"`
	Res      string `json:"res"` // rejected | sendErr | ctxErr | resp:<id>:<tag> | other:<text>
}

type c05Obs struct {
	Callers []c05CallerObs `json:"callers"`
	Stream  [][2]int       `json:"stream"`
	Table   int            `json:"table"`
	Note    string         `json:"note,omitempty"`
}

// ---- gate scheduler ---------------------------------------------------------------------------

type gateWaiter struct {
	point   string
	key     interface{}
	release chan struct{}
}

type gateSched struct {
	mu      sync.Mutex
	free    bool
	waiting []*gateWaiter
	cond    *sync.Cond
}

var gateReg sync.Map // case prefix -> *gateSched
var gateOnce sync.Once

func cmdIDOf(key interface{}) string {
	switch k := key.(type) {
	case *lime.RequestCommand:
		return k.ID
	case *lime.ResponseCommand:
		return k.ID
	}
	return ""
}

func installGates() {
	gateOnce.Do(func() {
		lime.VerifGate = func(point string, key interface{}) {
			id := cmdIDOf(key)
			p := strings.SplitN(id, "-", 2)
			if len(p) != 2 {
				return
			}
			v, ok := gateReg.Load(p[0])
			if !ok {
				return
			}
			v.(*gateSched).arrive(point, key)
		}
	})
}

func newGateSched() *gateSched { g := &gateSched{}; g.cond = sync.NewCond(&g.mu); return g }

func (g *gateSched) arrive(point string, key interface{}) {
	g.mu.Lock()
	if g.free {
		g.mu.Unlock()
		return
	}
	w := &gateWaiter{point: point, key: key, release: make(chan struct{})}
	g.waiting = append(g.waiting, w)
	g.cond.Broadcast()
	g.mu.Unlock()
	<-w.release
}

func (g *gateSched) findL(point string, match func(interface{}) bool) *gateWaiter {
	g.mu.Lock()
	defer g.mu.Unlock()
	return g.find(point, match)
}

// find returns the waiter at the point that satisfies match, or nil (scheduler lock held).
func (g *gateSched) find(point string, match func(interface{}) bool) *gateWaiter {
	for _, w := range g.waiting {
		if w.point == point && match(w.key) {
			return w
		}
	}
	return nil
}

func (g *gateSched) releaseW(w *gateWaiter) {
	g.mu.Lock()
	for i, x := range g.waiting {
		if x == w {
			g.waiting = append(g.waiting[:i], g.waiting[i+1:]...)
			break
		}
	}
	g.mu.Unlock()
	close(w.release)
}

func (g *gateSched) freeAll() {
	g.mu.Lock()
	g.free = true
	ws := g.waiting
	g.waiting = nil
	g.mu.Unlock()
	for _, w := range ws {
		close(w.release)
	}
}

// await polls cond (under the scheduler lock) until it yields true or the timeout passes.
func (g *gateSched) await(timeout time.Duration, cond func() bool) bool {
	deadline := time.Now().Add(timeout)
	for {
		g.mu.Lock()
		ok := cond()
		g.mu.Unlock()
		if ok {
			return true
		}
		if time.Now().After(deadline) {
			return false
		}
		time.Sleep(20 * time.Microsecond)
	}
}

var c05CaseSeq int64

type c05Caller struct {
	req      *lime.RequestCommand
	ctx      context.Context
	cancel   context.CancelFunc
	start    chan struct{}
	done     chan struct{}
	resp     *lime.ResponseCommand
	err      error
	spawned  bool
	failSend bool
}

func tagOf(r *lime.ResponseCommand) int {
	if r == nil || r.Metadata == nil {
		return -1
	}
	n, _ := strconv.Atoi(r.Metadata["tag"])
	return n
}

func numID(prefix, id string) int {
	n, _ := strconv.Atoi(strings.TrimPrefix(id, prefix+"-"))
	return n
}

func c05Run(c *c05Case) (obs c05Obs) {
	installGates()
	prefix := fmt.Sprintf("k%d", atomic.AddInt64(&c05CaseSeq, 1))
	g := newGateSched()
	gateReg.Store(prefix, g)
	defer gateReg.Delete(prefix)

	a, b := pair.NewBufConns()
	var failNext int32
	ct := &pair.WrapT{Transport: lime.NewTCPTransportFromConn(a, false, nil), BeforeSend: func() error {
		if atomic.CompareAndSwapInt32(&failNext, 1, 0) {
			return errors.New("injected: send failure")
		}
		return nil
	}}
	st := lime.NewTCPTransportFromConn(b, true, nil)
	cc, sc, err := pair.Established(ct, st, 16, "sid-"+prefix, lime.Node{Identity: lime.Identity{Name: "u", Domain: "d"}, Instance: "i"})
	if err != nil {
		obs.Note = "harness: " + err.Error()
		return
	}
	// the response stream of the client, as the application sees it
	var smu sync.Mutex
	var stream [][2]int
	go func() {
		for r := range cc.RespCmdChan() {
			smu.Lock()
			stream = append(stream, [2]int{numID(prefix, r.ID), tagOf(r)})
			smu.Unlock()
		}
	}()
	// requests as the server sees them
	var reqSeen int64
	go func() {
		for range sc.ReqCmdChan() {
			atomic.AddInt64(&reqSeen, 1)
		}
	}()
	callers := make([]*c05Caller, c.NCallers)
	for i := range callers {
		callers[i] = &c05Caller{start: make(chan struct{}), done: make(chan struct{})}
	}
	isDone := func(ch chan struct{}) bool {
		select {
		case <-ch:
			return true
		default:
			return false
		}
	}
	atGate := func(point string, i int) *gateWaiter {
		return g.find(point, func(k interface{}) bool { return k == interface{}(callers[i].req) })
	}
	rcvGate := func(point string) *gateWaiter {
		return g.find(point, func(k interface{}) bool { _, ok := k.(*lime.ResponseCommand); return ok })
	}
	atGateL := func(point string, i int) *gateWaiter {
		return g.findL(point, func(k interface{}) bool { return k == interface{}(callers[i].req) })
	}
	rcvGateL := func(point string) *gateWaiter {
		return g.findL(point, func(k interface{}) bool { _, ok := k.(*lime.ResponseCommand); return ok })
	}
	next := 0
	fail := func(lbl []interface{}, what string) { obs.Note = fmt.Sprintf("schedule step %v could not be forced: %s", lbl, what) }
	const T = 3 * time.Second
steps:
	for _, lbl := range c.Labels {
		name := lbl[0].(string)
		idx := func(k int) int { return int(asFloat(lbl[k])) }
		switch name {
		case "spawn":
			i := idx(1)
			cl := callers[i]
			cl.req = &lime.RequestCommand{}
			cl.req.ID = fmt.Sprintf("%s-%d", prefix, idx(2))
			cl.req.Method = lime.CommandMethodGet
			cl.req.SetURIString("/thing")
			cl.ctx, cl.cancel = context.WithCancel(context.Background())
			cl.spawned = true
			go func() {
				defer close(cl.done)
				<-cl.start
				cl.resp, cl.err = cc.ProcessCommand(cl.ctx, cl.req)
			}()
		case "register":
			i := idx(1)
			close(callers[i].start)
			if !g.await(T, func() bool { return atGate("pc.registered", i) != nil || isDone(callers[i].done) }) {
				fail(lbl, "the call neither registered nor returned")
				break steps
			}
		case "send":
			i := idx(1)
			ok, _ := lbl[2].(bool)
			w := atGateL("pc.registered", i)
			if w == nil {
				fail(lbl, "the call is not at the registered gate")
				break steps
			}
			before := atomic.LoadInt64(&reqSeen)
			if !ok {
				atomic.StoreInt32(&failNext, 1)
			}
			g.releaseW(w)
			if ok {
				if !g.await(T, func() bool { return atomic.LoadInt64(&reqSeen) > before }) {
					fail(lbl, "the request did not reach the server")
					break steps
				}
			} else if !g.await(T, func() bool { return atGate("pc.cleanup", i) != nil }) {
				fail(lbl, "the call did not reach its clean-up after the failed send")
				break steps
			}
		case "take":
			i := idx(1)
			if !g.await(T, func() bool { return atGate("pc.cleanup", i) != nil }) {
				fail(lbl, "the call did not take the response from its reply channel")
				break steps
			}
		case "cancel":
			i := idx(1)
			callers[i].cancel()
			if !g.await(T, func() bool { return atGate("pc.cleanup", i) != nil }) {
				fail(lbl, "the call did not reach its clean-up after the cancellation")
				break steps
			}
		case "cleanup":
			i := idx(1)
			w := atGateL("pc.cleanup", i)
			if w == nil {
				fail(lbl, "the call is not at the clean-up gate")
				break steps
			}
			g.releaseW(w)
			select {
			case <-callers[i].done:
			case <-time.After(T):
				fail(lbl, "the call did not return")
				break steps
			}
		case "rcvLookup":
			if next >= len(c.Incoming) {
				fail(lbl, "no incoming response left")
				break steps
			}
			in := c.Incoming[next]
			next++
			r := &lime.ResponseCommand{Status: lime.CommandStatusSuccess}
			r.ID = fmt.Sprintf("%s-%d", prefix, in[0])
			r.Method = lime.CommandMethodGet
			r.SetMetadataKeyValue("tag", strconv.Itoa(in[1]))
			smu.Lock()
			n0 := len(stream)
			smu.Unlock()
			sctx, scancel := context.WithTimeout(context.Background(), T)
			err := sc.SendResponseCommand(sctx, r)
			scancel()
			if err != nil {
				fail(lbl, "the server could not send: "+err.Error())
				break steps
			}
			if !g.await(T, func() bool {
				smu.Lock()
				grew := len(stream) > n0
				smu.Unlock()
				return grew || rcvGate("rcv.lookedUp") != nil || rcvGate("rcv.deleted") != nil
			}) {
				fail(lbl, "the response was neither looked up nor put on the stream")
				break steps
			}
		case "rcvDelete":
			w := rcvGateL("rcv.lookedUp")
			if w == nil {
				fail(lbl, "the receiver is not between look-up and delete (that gap does not exist in this code)")
				break steps
			}
			g.releaseW(w)
			if !g.await(T, func() bool { return rcvGate("rcv.deleted") != nil }) {
				fail(lbl, "the receiver did not reach the hand-off")
				break steps
			}
		case "rcvHandoff":
			w := rcvGateL("rcv.deleted")
			if w == nil {
				// one critical section for look-up and delete: the look-up gate may still hold it
				if w0 := rcvGateL("rcv.lookedUp"); w0 != nil {
					fail(lbl, "the receiver is held between look-up and delete: the code has two critical sections where the model has one")
				} else {
					fail(lbl, "the receiver is not at the hand-off gate")
				}
				break steps
			}
			g.releaseW(w)
			// the hand-off is a buffered channel send; the receiver then parks in Receive again
			for t0 := time.Now(); !a.Quiescent() && time.Since(t0) < 5*time.Millisecond; {
				time.Sleep(20 * time.Microsecond)
			}
		}
	}
	// what the run produced
	time.Sleep(200 * time.Microsecond)
	for i, cl := range callers {
		o := c05CallerObs{I: i}
		if cl.spawned && isDone(cl.done) {
			o.Returned = true
			switch {
			case cl.err == nil && cl.resp != nil:
				o.Res = fmt.Sprintf("resp:%d:%d", numID(prefix, cl.resp.ID), tagOf(cl.resp))
			case cl.err != nil && strings.Contains(cl.err.Error(), "already in use"):
				o.Res = "rejected"
			case cl.err != nil && strings.Contains(cl.err.Error(), "injected: send failure"):
				o.Res = "sendErr"
			case cl.err != nil && errors.Is(cl.err, context.Canceled):
				o.Res = "ctxErr"
			default:
				o.Res = "other:" + fmt.Sprint(cl.err)
			}
		}
		obs.Callers = append(obs.Callers, o)
	}
	smu.Lock()
	obs.Stream = append([][2]int{}, stream...)
	smu.Unlock()
	obs.Table = cc.VerifPendingCount()
	// tear down: everything runs free
	g.freeAll()
	for _, cl := range callers {
		if cl.spawned {
			cl.cancel()
			select {
			case <-cl.start:
			default:
				close(cl.start)
			}
		}
	}
	a.Close()
	b.Close()
	go cc.Close()
	go sc.Close()
	for _, cl := range callers {
		if cl.spawned {
			select {
			case <-cl.done:
			case <-time.After(2 * time.Second):
			}
		}
	}
	return
}

func asFloat(x interface{}) float64 {
	switch v := x.(type) {
	case float64:
		return v
	case int:
		return float64(v)
	case json.Number:
		f, _ := v.Float64()
		return f
	}
	return 0
}
