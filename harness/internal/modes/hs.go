package modes

import (
	"strings"
	"context"
	"crypto/tls"
	"encoding/json"
	"errors"
	"fmt"
	"net"
	"sync"
	"time"

	lime "github.com/takenet/lime-go"

	"limeverif/internal/codec"
	"limeverif/internal/pair"
)

// ---- server handshake runner: a scripted peer against the real ServerChannel ----------------

type hsSes struct {
	ID         string       `json:"id"`
	From       codec.VNode  `json:"from"`
	To         codec.VNode  `json:"to"`
	State      string       `json:"state"`
	CompOpts   []string     `json:"compOpts"`
	EncOpts    []string     `json:"encOpts"`
	Comp       string       `json:"comp"`
	Enc        string       `json:"enc"`
	SchemeOpts []string     `json:"schemeOpts"`
	Scheme     string       `json:"scheme"`
	Auth       *codec.VAuth `json:"auth"`
	HasReason  bool         `json:"hasReason"`
}

type hsRecv struct {
	T   string `json:"t"` // ses | other | fail
	Ses *hsSes `json:"ses,omitempty"`
	How string `json:"how,omitempty"` // for fail: garbage | close
}

type hsCfg struct {
	Sid        string      `json:"sid"`
	Node       codec.VNode `json:"node"`
	CompOpts   []string    `json:"compOpts"`
	EncOpts    []string    `json:"encOpts"`
	SchemeOpts []string    `json:"schemeOpts"`
	SupComp    []string    `json:"supComp"`
	SupEnc     []string    `json:"supEnc"`
}

type hsCase struct {
	Cfg      hsCfg         `json:"cfg"`
	Recvs    []hsRecv      `json:"recvs"`
	Auths    []interface{} `json:"auths"` // "role" | "unknown" | "error" | {"rt": auth}
	Regs     []*codec.VNode `json:"regs"`
	SendOk   []bool        `json:"sendOk"`
	SetEncOk bool          `json:"setEncOk"`
	Enc0     string        `json:"enc0"`
	Route    string        `json:"route"` // pipe | pipe-tls | inproc
}

type hsObs struct {
	Trace     []map[string]interface{} `json:"trace"`
	Ok        bool                     `json:"ok"`
	State     string                   `json:"state"`
	Connected bool                     `json:"connected"`
	Remote    codec.VNode              `json:"remote"`
	Enc       string                   `json:"enc"`
	Consumed  int                      `json:"consumed"`
	// impl only
	PeerSawClose bool   `json:"peer_saw_close,omitempty"`
	Note         string `json:"note,omitempty"`
	Panic        string `json:"panic,omitempty"`
}

func toAuth(a *codec.VAuth) lime.Authentication {
	if a == nil {
		return nil
	}
	switch a.Scheme {
	case "guest":
		return &lime.GuestAuthentication{}
	case "transport":
		return &lime.TransportAuthentication{}
	case "plain":
		return &lime.PlainAuthentication{Password: a.Password}
	case "key":
		return &lime.KeyAuthentication{Key: a.Key}
	case "external":
		return &lime.ExternalAuthentication{Token: a.Token, Issuer: a.Issuer}
	}
	return nil
}

func fromAuth(a lime.Authentication) *codec.VAuth {
	switch x := a.(type) {
	case *lime.GuestAuthentication:
		return &codec.VAuth{Scheme: "guest"}
	case *lime.TransportAuthentication:
		return &codec.VAuth{Scheme: "transport"}
	case *lime.PlainAuthentication:
		return &codec.VAuth{Scheme: "plain", Password: x.Password}
	case *lime.KeyAuthentication:
		return &codec.VAuth{Scheme: "key", Key: x.Key}
	case *lime.ExternalAuthentication:
		return &codec.VAuth{Scheme: "external", Token: x.Token, Issuer: x.Issuer}
	}
	return nil
}

func vnode(n lime.Node) codec.VNode { return codec.VNode{N: n.Name, D: n.Domain, I: n.Instance} }
func lnode(v codec.VNode) lime.Node {
	return lime.Node{Identity: lime.Identity{Name: v.N, Domain: v.D}, Instance: v.I}
}

func (s *hsSes) toSession() *lime.Session {
	out := &lime.Session{State: lime.SessionState(s.State), Compression: lime.SessionCompression(s.Comp),
		Encryption: lime.SessionEncryption(s.Enc), Scheme: lime.AuthenticationScheme(s.Scheme), Authentication: toAuth(s.Auth)}
	out.ID, out.From, out.To = s.ID, lnode(s.From), lnode(s.To)
	if s.HasReason {
		out.Reason = &lime.Reason{Code: 1, Description: "scripted"}
	}
	for _, o := range s.CompOpts {
		out.CompressionOptions = append(out.CompressionOptions, lime.SessionCompression(o))
	}
	for _, o := range s.EncOpts {
		out.EncryptionOptions = append(out.EncryptionOptions, lime.SessionEncryption(o))
	}
	for _, o := range s.SchemeOpts {
		out.SchemeOptions = append(out.SchemeOptions, lime.AuthenticationScheme(o))
	}
	return out
}

func sesFrom(x *lime.Session) *hsSes {
	s := &hsSes{ID: x.ID, From: vnode(x.From), To: vnode(x.To), State: string(x.State), Comp: string(x.Compression),
		Enc: string(x.Encryption), Scheme: string(x.Scheme), Auth: fromAuth(x.Authentication), HasReason: x.Reason != nil,
		CompOpts: []string{}, EncOpts: []string{}, SchemeOpts: []string{}}
	for _, o := range x.CompressionOptions {
		s.CompOpts = append(s.CompOpts, string(o))
	}
	for _, o := range x.EncryptionOptions {
		s.EncOpts = append(s.EncOpts, string(o))
	}
	for _, o := range x.SchemeOptions {
		s.SchemeOpts = append(s.SchemeOpts, string(o))
	}
	return s
}

type evLog struct {
	mu  sync.Mutex
	evs []map[string]interface{}
}

func (l *evLog) add(e map[string]interface{}) { l.mu.Lock(); l.evs = append(l.evs, e); l.mu.Unlock() }

var errCallback = errors.New("verif callback error")

// callbackError: what a failing Authenticate / Register callback returns varies with the script — a plain
// error, or one that wraps the context errors a cancelled or timed-out downstream lookup would produce
// (the server's own context is not over: the failure is the callback's and is handled like any other)
func callbackError(k int) error {
	switch k % 3 {
	case 0:
		return fmt.Errorf("lookup interrupted: %w", context.Canceled)
	case 2:
		return fmt.Errorf("lookup timed out: %w", context.DeadlineExceeded)
	}
	return errCallback
}

func toEnc(l []string) []lime.SessionEncryption {
	out := make([]lime.SessionEncryption, len(l))
	for i, x := range l {
		out[i] = lime.SessionEncryption(x)
	}
	return out
}
func toComp(l []string) []lime.SessionCompression {
	out := make([]lime.SessionCompression, len(l))
	for i, x := range l {
		out[i] = lime.SessionCompression(x)
	}
	return out
}
func toSchemes(l []string) []lime.AuthenticationScheme {
	out := make([]lime.AuthenticationScheme, len(l))
	for i, x := range l {
		out[i] = lime.AuthenticationScheme(x)
	}
	return out
}

// rawPeer is the scripted peer at byte level: it writes JSON lines, reads JSON values, and
// upgrades its side to TLS when the server confirms a negotiated encryption (as a client does).
type rawPeer struct {
	raw  pair.BufConn
	conn net.Conn
	dec  *json.Decoder
	tls  *tls.Config
	enc  string
	wmu  sync.Mutex
	bad  bool // answers the server's TLS handshake with bytes that are not TLS
}

func newRawPeer(raw pair.BufConn, cfg *tls.Config) *rawPeer {
	return &rawPeer{raw: raw, conn: raw, dec: json.NewDecoder(raw), tls: cfg, enc: "none"}
}

func (p *rawPeer) send(v interface{}) {
	b, err := json.Marshal(v)
	if err != nil {
		return
	}
	p.wmu.Lock()
	p.conn.Write(append(b, '\n'))
	p.wmu.Unlock()
}

func (p *rawPeer) upgrade() error {
	if p.tls == nil {
		return errors.New("peer has no TLS configuration")
	}
	if p.bad {
		p.wmu.Lock()
		p.conn.Write([]byte("GET / HTTP/1.1\r\nHost: example\r\n\r\n"))
		p.wmu.Unlock()
		return errors.New("peer does not speak TLS")
	}
	c := tls.Client(p.raw, p.tls)
	c.SetDeadline(time.Now().Add(10 * time.Second))
	if err := c.Handshake(); err != nil {
		return err
	}
	c.SetDeadline(time.Time{})
	p.wmu.Lock()
	p.conn = c
	p.dec = json.NewDecoder(c)
	p.enc = "tls"
	p.wmu.Unlock()
	return nil
}

func strList(x interface{}) []string {
	out := []string{}
	if a, ok := x.([]interface{}); ok {
		for _, e := range a {
			s, _ := e.(string)
			out = append(out, s)
		}
	}
	return out
}

func rawNode(x interface{}) codec.VNode {
	s, _ := x.(string)
	return vnode(lime.ParseNode(s))
}

// rawSes reads the session members of a decoded wire object without any validation.
func rawSes(m map[string]interface{}) *hsSes {
	str := func(k string) string { s, _ := m[k].(string); return s }
	s := &hsSes{ID: str("id"), From: rawNode(m["from"]), To: rawNode(m["to"]), State: str("state"),
		Comp: str("compression"), Enc: str("encryption"), Scheme: str("scheme"), HasReason: m["reason"] != nil,
		CompOpts: strList(m["compressionOptions"]), EncOpts: strList(m["encryptionOptions"]), SchemeOpts: strList(m["schemeOptions"])}
	if a, ok := m["authentication"].(map[string]interface{}); ok {
		va := &codec.VAuth{Scheme: s.Scheme}
		va.Password, _ = a["password"].(string)
		va.Key, _ = a["key"].(string)
		va.Token, _ = a["token"].(string)
		va.Issuer, _ = a["issuer"].(string)
		if va.Scheme == "" { // a round trip envelope carries no scheme member: infer from the members present
			switch {
			case a["password"] != nil:
				va.Scheme = "plain"
			case a["key"] != nil:
				va.Scheme = "key"
			case a["token"] != nil || a["issuer"] != nil:
				va.Scheme = "external"
			default:
				va.Scheme = "guest"
			}
		}
		s.Auth = va
	}
	return s
}

// runServerHs plays the script against the real ServerChannel.EstablishSession over the real TCP
// transport on an in-memory connection (route pipe / pipe-tls); the peer works at byte level.
func runServerHs(c *hsCase) (obs hsObs) {
	var tcfgS *lime.TCPConfig
	var tcfgC *tls.Config
	if strings.HasPrefix(c.Route, "pipe-tls") {
		s, cl := pair.TLSConfigs()
		tcfgS, tcfgC = &lime.TCPConfig{TLSConfig: s}, cl
	}
	pc, sconn := pair.NewBufConns() // peer end, server end
	st := lime.NewTCPTransportFromConn(sconn, true, tcfgS)
	peer := newRawPeer(pc, tcfgC)
	peer.bad = c.Route == "pipe-tls-bad"
	sc := lime.NewServerChannel(st, 1, lnode(c.Cfg.Node), c.Cfg.Sid)
	log := &evLog{}
	ai, ri := 0, 0
	var cbmu sync.Mutex
	authenticate := func(_ context.Context, id lime.Identity, a lime.Authentication) (*lime.AuthenticationResult, error) {
		cbmu.Lock()
		defer cbmu.Unlock()
		var out interface{} = "error"
		if ai < len(c.Auths) {
			out = c.Auths[ai]
		}
		ai++
		var outLog interface{} = out
		if out == "unknown0" {
			outLog = "unknown" // an empty role without a round trip is the same outcome class
		}
		log.add(map[string]interface{}{"e": "auth", "name": id.Name, "domain": id.Domain, "cred": fromAuth(a), "enc": string(st.Encryption()), "out": outLog})
		switch o := out.(type) {
		case string:
			switch o {
			case "role":
				return lime.MemberAuthenticationResult(), nil
			case "unknown":
				return lime.UnknownAuthenticationResult(), nil
			case "unknown0":
				return &lime.AuthenticationResult{}, nil // empty role, no round trip
			}
			return nil, errCallback
		case map[string]interface{}:
			b, _ := json.Marshal(o["rt"])
			var va codec.VAuth
			json.Unmarshal(b, &va)
			return &lime.AuthenticationResult{Role: lime.DomainRoleUnknown, RoundTrip: toAuth(&va)}, nil
		}
		return nil, errCallback
	}
	register := func(_ context.Context, n lime.Node, _ *lime.ServerChannel) (lime.Node, error) {
		cbmu.Lock()
		defer cbmu.Unlock()
		var res *codec.VNode
		if ri < len(c.Regs) {
			res = c.Regs[ri]
		}
		ri++
		var rj interface{}
		if res != nil {
			rj = *res
		}
		log.add(map[string]interface{}{"e": "reg", "cand": vnode(n), "res": rj})
		if res == nil {
			return lime.Node{}, errCallback
		}
		return lnode(*res), nil
	}
	ctx, cancel := context.WithTimeout(context.Background(), 20*time.Second)
	defer cancel()
	done := make(chan struct{})
	var estErr error
	go func() {
		defer close(done)
		defer func() {
			if r := recover(); r != nil {
				obs.Panic = fmt.Sprint(r)
			}
		}()
		estErr = sc.EstablishSession(ctx, toComp(c.Cfg.CompOpts), toEnc(c.Cfg.EncOpts), toSchemes(c.Cfg.SchemeOpts), authenticate, register)
	}()
	// peer reader: records what the server emits; follows a confirmed negotiation like a client does
	readerDone := make(chan struct{})
	go func() {
		defer close(readerDone)
		defer func() { recover() }()
		for {
			var m map[string]interface{}
			if err := peer.dec.Decode(&m); err != nil {
				// the server ended the stream (close_notify under TLS, or closed): a client closes too,
				// which lets the server's lingering close finish at once
				pc.Close()
				return
			}
			if _, ok := m["state"]; !ok {
				log.add(map[string]interface{}{"e": "emit-other"})
				continue
			}
			ses := rawSes(m)
			log.add(map[string]interface{}{"e": "emit", "ses": ses, "enc": peer.enc})
			if ses.State == "negotiating" && ses.Enc != "" && ses.Enc != peer.enc && ses.Enc == "tls" {
				if err := peer.upgrade(); err != nil {
					log.add(map[string]interface{}{"e": "peer-setenc-failed"})
					// keep reading in the clear: the server will not get its TLS handshake
				}
			}
		}
	}()
	quiet := func() bool {
		// both ends blocked reading the raw connection with nothing in flight, or the handshake call returned
		deadline := time.Now().Add(10 * time.Second)
		for time.Now().Before(deadline) {
			if isDone(done) {
				return true
			}
			if pc.Quiescent() {
				return true
			}
			time.Sleep(50 * time.Microsecond)
		}
		return false
	}
	consumed := 0
	for _, item := range c.Recvs {
		if !quiet() {
			obs.Note = "no quiescence before script item"
			break
		}
		if isDone(done) {
			break
		}
		consumed++
		switch item.T {
		case "ses":
			log.add(map[string]interface{}{"e": "recv", "r": item})
			peer.send(item.Ses.toSession())
		case "other":
			log.add(map[string]interface{}{"e": "recv", "r": hsRecv{T: "other"}})
			m := &lime.Message{}
			m.SetContent(lime.TextDocument("injected"))
			m.ID = "injected"
			peer.send(m)
		case "fail":
			log.add(map[string]interface{}{"e": "recv", "r": hsRecv{T: "fail", How: item.How}})
			if item.How == "close" {
				pc.Close()
			} else {
				peer.wmu.Lock()
				peer.conn.Write([]byte("{\"garbage\n"))
				peer.wmu.Unlock()
			}
		}
	}
	if !isDone(done) {
		quiet()
	}
	if !isDone(done) {
		// the server wants more input than the script has: the peer goes away
		pc.Close()
	}
	select {
	case <-done:
	case <-time.After(10 * time.Second):
		obs.Note = "EstablishSession did not return"
		cancel()
		<-done
	}
	// let the peer's reader take everything the server wrote before the connection is torn down
	sconn.WaitPeerDrained(5 * time.Second)
	if peer.enc == "tls" {
		time.Sleep(200 * time.Microsecond) // the TLS layer may still hold a decrypted record
	}
	obs.Consumed = consumed
	obs.Ok = estErr == nil && obs.Panic == ""
	obs.State = string(sc.State())
	obs.Connected = st.Connected()
	obs.Remote = vnode(sc.RemoteNode())
	obs.Enc = string(st.Encryption())
	obs.PeerSawClose = pc.PeerClosed()
	pc.Close()
	sconn.Close()
	go sc.Close()
	<-readerDone
	log.mu.Lock()
	obs.Trace = log.evs
	log.mu.Unlock()
	return obs
}

func isDone(ch chan struct{}) bool {
	select {
	case <-ch:
		return true
	default:
		return false
	}
}

// projectModelTrace keeps the events the harness can observe and drops fields it cannot.
func projectHs(tr []map[string]interface{}) []map[string]interface{} {
	out := []map[string]interface{}{}
	for _, ev := range tr {
		switch ev["e"] {
		case "recv":
			out = append(out, map[string]interface{}{"e": "recv", "r": ev["r"]})
		case "emit":
			out = append(out, map[string]interface{}{"e": "emit", "ses": ev["ses"], "enc": ev["enc"]})
		case "auth":
			out = append(out, map[string]interface{}{"e": "auth", "name": ev["name"], "domain": ev["domain"], "cred": ev["cred"], "enc": ev["enc"], "out": ev["out"]})
		case "reg":
			out = append(out, map[string]interface{}{"e": "reg", "cand": ev["cand"], "res": ev["res"]})
		}
	}
	return out
}

func canonJSON(v interface{}) string {
	b, _ := json.Marshal(v)
	var x interface{}
	json.Unmarshal(b, &x)
	x = dropEmpty(x)
	b, _ = json.Marshal(x)
	return string(b)
}

// dropEmpty removes null / "" / [] / false members so that absent and zero compare equal.
func dropEmpty(x interface{}) interface{} {
	switch v := x.(type) {
	case map[string]interface{}:
		out := map[string]interface{}{}
		for k, e := range v {
			e = dropEmpty(e)
			switch t := e.(type) {
			case nil:
				continue
			case string:
				if t == "" {
					continue
				}
			case bool:
				if !t {
					continue
				}
			case []interface{}:
				if len(t) == 0 {
					continue
				}
			case map[string]interface{}:
				if len(t) == 0 {
					continue
				}
			}
			out[k] = e
		}
		return out
	case []interface{}:
		out := make([]interface{}, len(v))
		for i, e := range v {
			out[i] = dropEmpty(e)
		}
		return out
	}
	return x
}

func (e *Env) modelServerHs(c *hsCase) (hsObs, error) {
	var o hsObs
	req := map[string]interface{}{"m": "srvhs", "cfg": c.Cfg, "recvs": c.Recvs, "auths": c.Auths, "regs": c.Regs,
		"sendOk": c.SendOk, "setEncOk": c.SetEncOk, "enc0": c.Enc0}
	err := e.Drv.Call(req, &o)
	return o, err
}

// compareHs diffs implementation and model observations of one handshake.
func compareHs(impl, model hsObs) string {
	it, mt := canonJSON(projectHs(impl.Trace)), canonJSON(projectHs(model.Trace))
	if it != mt {
		return "traces differ: impl " + it + " model " + mt
	}
	if impl.Ok != model.Ok {
		return fmt.Sprintf("EstablishSession returned ok=%v, model ok=%v", impl.Ok, model.Ok)
	}
	if impl.State != model.State {
		return fmt.Sprintf("final state %s, model %s", impl.State, model.State)
	}
	if impl.Connected != model.Connected {
		return fmt.Sprintf("transport connected=%v, model %v", impl.Connected, model.Connected)
	}
	if canonJSON(impl.Remote) != canonJSON(model.Remote) {
		return "remote node differs"
	}
	if impl.Enc != model.Enc {
		return fmt.Sprintf("encryption in force %s, model %s", impl.Enc, model.Enc)
	}
	return ""
}
