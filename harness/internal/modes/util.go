package modes

import (
	"context"
	"encoding/json"
	"errors"
	"fmt"
	"net"
	"os"
	"path/filepath"
	"strconv"
	"sync/atomic"
	"time"

	lime "github.com/takenet/lime-go"
)

func readReplayCase(path string) ([]byte, error) {
	b, err := os.ReadFile(path)
	if err != nil {
		return nil, err
	}
	var doc struct {
		Case json.RawMessage `json:"case"`
	}
	if err := json.Unmarshal(b, &doc); err != nil {
		return nil, err
	}
	if doc.Case == nil {
		return b, nil
	}
	return doc.Case, nil
}

var srvSeq int64

// freePort asks the kernel for a free port and reserves it against the other harness processes that
// run at the same time (parallel child processes, several checks at once): between the moment the
// probe socket is closed and the moment the library's listener binds the port, another process that
// asks the same question can be given the same answer, and its clients then talk to the wrong server.
// The reservation is a file created exclusively under the temporary directory, honoured for a minute.
func freePort() (*net.TCPAddr, error) {
	dir := filepath.Join(os.TempDir(), "limeverif-ports")
	_ = os.MkdirAll(dir, 0o777)
	for try := 0; try < 50; try++ {
		ln, err := net.Listen("tcp", "127.0.0.1:0")
		if err != nil {
			return nil, err
		}
		a := ln.Addr().(*net.TCPAddr)
		lock := filepath.Join(dir, strconv.Itoa(a.Port))
		if st, err := os.Stat(lock); err == nil && time.Since(st.ModTime()) < time.Minute {
			ln.Close()
			continue // reserved by another process a moment ago
		}
		_ = os.Remove(lock)
		f, err := os.OpenFile(lock, os.O_CREATE|os.O_EXCL|os.O_WRONLY, 0o666)
		if err != nil {
			ln.Close()
			continue
		}
		f.Close()
		ln.Close()
		return a, nil
	}
	return nil, errors.New("no free port could be reserved")
}

// startServer builds the server from the builder with one listener of the given transport
// ("inproc", "tcp", "ws"), runs ListenAndServe and returns a dial function for raw transports.
func startServer(b *lime.ServerBuilder, tr string) (dial func() (lime.Transport, error), stop func(), err error) {
	var srv *lime.Server
	switch tr {
	case "inproc":
		addr := lime.InProcessAddr(fmt.Sprintf("verif-srv-%d", atomic.AddInt64(&srvSeq, 1)))
		srv = b.ListenInProcess(addr).Build()
		dial = func() (lime.Transport, error) { return lime.DialInProcess(addr, 8) }
	case "tcp":
		a, e := freePort()
		if e != nil {
			return nil, nil, e
		}
		srv = b.ListenTCP(a, nil).Build()
		dial = func() (lime.Transport, error) {
			ctx, c := context.WithTimeout(context.Background(), 5*time.Second)
			defer c()
			return lime.DialTcp(ctx, a, nil)
		}
	case "ws":
		a, e := freePort()
		if e != nil {
			return nil, nil, e
		}
		srv = b.ListenWebsocket(a, nil).Build()
		dial = func() (lime.Transport, error) {
			ctx, c := context.WithTimeout(context.Background(), 5*time.Second)
			defer c()
			return lime.DialWebsocket(ctx, fmt.Sprintf("ws://%s", a.String()), nil, nil)
		}
	default:
		return nil, nil, fmt.Errorf("unknown transport %s", tr)
	}
	done := make(chan error, 1)
	go func() {
		defer func() {
			if r := recover(); r != nil {
				done <- fmt.Errorf("panic: %v", r)
			}
		}()
		done <- srv.ListenAndServe()
	}()
	// wait until the listener answers
	deadline := time.Now().Add(5 * time.Second)
	for {
		t, e := dial()
		if e == nil {
			t.Close()
			break
		}
		if time.Now().After(deadline) {
			return nil, nil, fmt.Errorf("server did not start: %v", e)
		}
		time.Sleep(2 * time.Millisecond)
	}
	stop = func() {
		_ = srv.Close()
		select {
		case <-done:
		case <-time.After(10 * time.Second):
		}
	}
	return dial, stop, nil
}
