package modes

import (
	"strings"
	"fmt"
)

type hsVerdict = struct{ key, msg string }

// judgeTrace lets the compiled Lean checkers (the theorems' own predicates) judge an observed trace.
func (e *Env) judgeTrace(c *hsCase, o hsObs) (map[string]bool, error) {
	var raw map[string]interface{}
	req := map[string]interface{}{"m": "srvjudge", "cfg": c.Cfg, "trace": projectHs(o.Trace)}
	err := e.Drv.Call(req, &raw)
	out := map[string]bool{}
	for k, v := range raw {
		if b, ok := v.(bool); ok {
			out[k] = b
		}
	}
	if p, ok := raw["phase"].(string); ok {
		lastPhase = p
	}
	return out, err
}

var lastPhase string

func lastEstablished(o hsObs) map[string]interface{} {
	var last map[string]interface{}
	for _, ev := range o.Trace {
		if ev["e"] == "emit" {
			if s, ok := ev["ses"].(*hsSes); ok && s.State == "established" {
				last = ev
			}
		}
	}
	return last
}

// judgeC03: no session is established without successful authentication.
func judgeC03(e *Env, c *hsCase, o hsObs) []hsVerdict {
	out := []hsVerdict{}
	v, err := e.judgeTrace(c, o)
	if err != nil {
		return []hsVerdict{{"c03-judge-error", err.Error()}}
	}
	if !v["c03"] {
		out = append(out, hsVerdict{"c03-unlicensed", "an established envelope is not licensed by Authenticate (known role) and Register for the identity, scheme and credentials the peer presented last"})
	}
	est := lastEstablished(o)
	if o.State == "established" {
		if est == nil {
			out = append(out, hsVerdict{"c03-state-without-envelope", "the server channel is established but no established envelope was sent"})
		} else if s := est["ses"].(*hsSes); s.To != o.Remote {
			out = append(out, hsVerdict{"c03-remote-node", fmt.Sprintf("established envelope announces %+v but the channel's remote node is %+v", s.To, o.Remote)})
		}
	}
	if est != nil && o.State != "established" && o.Ok {
		// established was announced; the channel may legitimately have moved on only to a terminal state
		if o.State != "finished" && o.State != "failed" {
			out = append(out, hsVerdict{"c03-envelope-without-state", "an established envelope was sent but the channel is in state " + o.State})
		}
	}
	return out
}

// judgeC10: a server that does not offer cleartext never authenticates over cleartext.
func judgeC10(e *Env, c *hsCase, o hsObs) []hsVerdict {
	if inList(c.Cfg.EncOpts, "none") || !strings.HasPrefix(c.Route, "pipe-tls") {
		return nil // the hypothesis (cleartext not offered, transport can provide a configured option) does not hold
	}
	ok := false
	for _, x := range c.Cfg.EncOpts {
		if inList(c.Cfg.SupEnc, x) {
			ok = true
		}
	}
	if !ok {
		return nil
	}
	e.Rep.Count("c10-hypothesis-holds")
	v, err := e.judgeTrace(c, o)
	if err != nil {
		return []hsVerdict{{"c10-judge-error", err.Error()}}
	}
	if !v["c10"] {
		return []hsVerdict{{"c10-cleartext-auth", "cleartext is not among the server's encryption options, yet credentials were requested / checked / the session established while the connection was unencrypted"}}
	}
	if o.State == "established" && !inList(c.Cfg.EncOpts, o.Enc) {
		return []hsVerdict{{"c10-cleartext-auth", "session established with encryption " + o.Enc + " which the server does not offer"}}
	}
	return nil
}

// judgeC07: the server handshake follows the protocol order and fails closed.
func judgeC07(e *Env, c *hsCase, o hsObs) []hsVerdict {
	v, err := e.judgeTrace(c, o)
	if err != nil {
		return []hsVerdict{{"c07-judge-error", err.Error()}}
	}
	out := []hsVerdict{}
	if !v["c07"] {
		out = append(out, hsVerdict{"c07-order", "the exchange is not a word of the protocol automaton (emission order / id and sender stamps / offered options / confirmation / single terminal envelope)"})
	} else if !v["c07answered"] {
		out = append(out, hsVerdict{"c07-unanswered", "the exchange stopped while the server owed an envelope (a client violation was not answered with failed, or a confirmed / authenticated step was not followed up): phase " + lastPhase})
	}
	failedSent := false
	for _, ev := range o.Trace {
		if ev["e"] == "emit" {
			if s, ok := ev["ses"].(*hsSes); ok && s.State == "failed" {
				failedSent = true
			}
		}
	}
	if failedSent && (o.Connected || !o.PeerSawClose) {
		out = append(out, hsVerdict{"c07-not-closed", "a failed session was sent but the server did not close the connection"})
	}
	if failedSent && o.State != "failed" {
		out = append(out, hsVerdict{"c07-state", "a failed session was sent but the channel state is " + o.State})
	}
	return out
}

func init() {
	Register("c07", hssrvMode(judgeC07, "c07"))
	Register("c03", hssrvMode(judgeC03, "c03"))
	Register("c10", func(e *Env) error {
		if err := hssrvMode(judgeC10, "c10")(e); err != nil {
			return err
		}
		if e.Replay != "" {
			return nil
		}
		return c10BuilderCases(e)
	})
}
