package modes

import (
	"context"
	"encoding/json"
	"fmt"
	"strconv"
	"strings"
	"sync"
	"sync/atomic"
	"time"

	lime "github.com/takenet/lime-go"

	"limeverif/internal/pair"
)

// ---- C04: established channels deliver every envelope exactly once, intact, in order ----------

type c04Case struct {
	Transport  string `json:"transport"`
	Buf        int    `json:"buf"` // channel buffer size (inbound streams)
	InprocBuf  int    `json:"inproc_buf"`
	CliSenders int    `json:"cli_senders"`
	SrvSenders int    `json:"srv_senders"`
	PerSender  int    `json:"per_sender"`
	MaxPayload int    `json:"max_payload"`
	ReadLimit  int64  `json:"read_limit"`
	Consumer   string `json:"consumer"` // stream | mux
	DelayUs    int    `json:"delay_us"` // handler / consumer delay
	Jitter     bool   `json:"jitter"`
	Seed       int64  `json:"seed"`
	ProcCalls  int    `json:"proc_calls"` // ProcessCommand calls (two callers), each answered twice by the peer
}

type c04E [3]int // kind, sender, seq

var c04ExtraMu sync.Mutex

var c04Kinds = []string{"msg", "ntf", "req", "resp"}

func c04Payload(s, n, p int) string {
	if p <= 0 {
		return ""
	}
	unit := fmt.Sprintf("(%d.%d)abcdefghij\"\\", s, n) // two escaped characters per ~18: the wire form grows by about a tenth
	return strings.Repeat(unit, p/len(unit)+1)[:p]
}

type c04Side struct {
	name    string
	sentOK  [][]c04E // per sender, in order
	mu      sync.Mutex
	got     [4][]c04E // per kind, in delivery order
	corrupt []string
	count   int64
	// responses to ProcessCommand requests ("P" ids) that surfaced on the response stream: id -> tags
	procStream map[string][]string
	// how to answer a "P" request (server side)
	answer func(id string)
}

func (sd *c04Side) record(k int, id string, meta map[string]string, payload string) {
	if strings.HasPrefix(id, "P") {
		if k == 2 && sd.answer != nil {
			sd.answer(id)
		}
		if k == 3 {
			sd.mu.Lock()
			if sd.procStream == nil {
				sd.procStream = map[string][]string{}
			}
			sd.procStream[id] = append(sd.procStream[id], meta["tag"])
			sd.mu.Unlock()
		}
		return
	}
	s, _ := strconv.Atoi(meta["s"])
	n, _ := strconv.Atoi(meta["n"])
	p, _ := strconv.Atoi(meta["p"])
	sd.mu.Lock()
	if payload != c04Payload(s, n, p) || id != fmt.Sprintf("%s%d-%d", c04Kinds[k][:1], s, n) {
		sd.corrupt = append(sd.corrupt, fmt.Sprintf("%s envelope id=%q meta=%v arrived with a payload of %d bytes that is not what was sent", c04Kinds[k], id, meta, len(payload)))
	}
	sd.got[k] = append(sd.got[k], c04E{k, s, n})
	sd.mu.Unlock()
	atomic.AddInt64(&sd.count, 1)
}

func docText(d lime.Document) string {
	if t, ok := d.(lime.TextDocument); ok {
		return string(t)
	}
	if t, ok := d.(*lime.TextDocument); ok && t != nil {
		return string(*t)
	}
	return fmt.Sprintf("<%T>", d)
}

type c04Chan interface {
	dataSender
	MsgChan() <-chan *lime.Message
	NotChan() <-chan *lime.Notification
	ReqCmdChan() <-chan *lime.RequestCommand
	RespCmdChan() <-chan *lime.ResponseCommand
}

// c04Consume starts the consumers of one end; what they see is recorded in sd.
func c04Consume(ctx context.Context, c *c04Case, ch c04Chan, sd *c04Side, cc *lime.ClientChannel, sc *lime.ServerChannel) {
	delay := func() {
		if c.DelayUs > 0 {
			time.Sleep(time.Duration(c.DelayUs) * time.Microsecond)
		}
	}
	if c.Consumer == "mux" {
		mux := &lime.EnvelopeMux{}
		mux.MessageHandlerFunc(nil, func(_ context.Context, m *lime.Message, _ lime.Sender) error {
			delay()
			sd.record(0, m.ID, m.Metadata, docText(m.Content))
			return nil
		})
		mux.NotificationHandlerFunc(nil, func(_ context.Context, n *lime.Notification) error {
			delay()
			sd.record(1, n.ID, n.Metadata, n.Metadata["pad"])
			return nil
		})
		mux.RequestCommandHandlerFunc(nil, func(_ context.Context, r *lime.RequestCommand, _ lime.Sender) error {
			delay()
			sd.record(2, r.ID, r.Metadata, docText(r.Resource))
			return nil
		})
		mux.ResponseCommandHandlerFunc(nil, func(_ context.Context, r *lime.ResponseCommand, _ lime.Sender) error {
			delay()
			sd.record(3, r.ID, r.Metadata, docText(r.Resource))
			return nil
		})
		go func() {
			if cc != nil {
				_ = mux.ListenClient(ctx, cc)
			} else {
				_ = mux.ListenServer(ctx, sc)
			}
		}()
		return
	}
	go func() {
		for m := range ch.MsgChan() {
			delay()
			sd.record(0, m.ID, m.Metadata, docText(m.Content))
		}
	}()
	go func() {
		for n := range ch.NotChan() {
			delay()
			sd.record(1, n.ID, n.Metadata, n.Metadata["pad"])
		}
	}()
	go func() {
		for r := range ch.ReqCmdChan() {
			delay()
			sd.record(2, r.ID, r.Metadata, docText(r.Resource))
		}
	}()
	go func() {
		for r := range ch.RespCmdChan() {
			delay()
			sd.record(3, r.ID, r.Metadata, docText(r.Resource))
		}
	}()
}

func c04Send(ctx context.Context, ch dataSender, k, s, n, p int) error {
	id := fmt.Sprintf("%s%d-%d", c04Kinds[k][:1], s, n)
	meta := func(set func(string, string)) {
		set("s", strconv.Itoa(s))
		set("n", strconv.Itoa(n))
		set("p", strconv.Itoa(p))
	}
	pay := c04Payload(s, n, p)
	switch k {
	case 0:
		m := &lime.Message{}
		m.ID = id
		m.SetContent(lime.TextDocument(pay))
		meta(func(a, b string) { m.SetMetadataKeyValue(a, b) })
		return ch.SendMessage(ctx, m)
	case 1:
		x := &lime.Notification{Event: lime.NotificationEventReceived}
		x.ID = id
		meta(func(a, b string) { x.SetMetadataKeyValue(a, b) })
		x.SetMetadataKeyValue("pad", pay)
		return ch.SendNotification(ctx, x)
	case 2:
		r := &lime.RequestCommand{}
		r.ID = id
		r.Method = lime.CommandMethodSet
		r.SetURIString("/thing")
		r.SetResource(lime.TextDocument(pay))
		meta(func(a, b string) { r.SetMetadataKeyValue(a, b) })
		return ch.SendRequestCommand(ctx, r)
	default:
		r := &lime.ResponseCommand{Status: lime.CommandStatusSuccess}
		r.ID = id
		r.Method = lime.CommandMethodGet
		r.SetResource(lime.TextDocument(pay))
		meta(func(a, b string) { r.SetMetadataKeyValue(a, b) })
		return ch.SendResponseCommand(ctx, r)
	}
}

type c04Obs struct {
	Sent     [2]int   `json:"sent"`      // successful sends client->server, server->client
	Got      [2]int   `json:"delivered"` // deliveries at the server, at the client
	SendErrs []string `json:"send_errors,omitempty"`
	Note     string   `json:"note,omitempty"`
}

// lcg is a tiny deterministic generator local to one sender goroutine.
type lcg uint64

func (g *lcg) next(n int) int {
	*g = *g*6364136223846793005 + 1442695040888963407
	return int((uint64(*g) >> 33) % uint64(n))
}

func c04Run(e *Env, c *c04Case) error {
	e.Rep.Eval()
	e.Rep.Count("transport=" + c.Transport)
	e.Rep.Count(fmt.Sprintf("buf=%d consumer=%s delay=%dus", c.Buf, c.Consumer, c.DelayUs))
	ct, st, cleanup, err := pair.Transports(c.Transport, c.ReadLimit, c.InprocBuf)
	if err != nil {
		cleanup()
		return fmt.Errorf("harness: transports %s: %v", c.Transport, err)
	}
	defer cleanup()
	cc, sc, err := pair.Established(ct, st, c.Buf, fmt.Sprintf("c04-%d", c.Seed), lime.Node{Identity: lime.Identity{Name: "u", Domain: "d"}, Instance: "i"})
	if err != nil {
		return fmt.Errorf("harness: establish over %s: %v", c.Transport, err)
	}
	ctx, cancel := context.WithTimeout(context.Background(), 60*time.Second)
	defer cancel()
	atSrv := &c04Side{name: "server", sentOK: make([][]c04E, c.CliSenders)} // what the client's senders sent, what the server got
	atCli := &c04Side{name: "client", sentOK: make([][]c04E, c.SrvSenders)}
	atSrv.answer = func(id string) {
		for _, tag := range []string{"1", "2"} {
			r := &lime.ResponseCommand{Status: lime.CommandStatusSuccess}
			r.ID = id
			r.Method = lime.CommandMethodGet
			r.SetMetadataKeyValue("tag", tag)
			_ = sc.SendResponseCommand(ctx, r)
		}
	}
	c04Consume(ctx, c, sc, atSrv, nil, sc)
	c04Consume(ctx, c, cc, atCli, cc, nil)
	// ProcessCommand callers: each request is answered twice; one answer completes the call, the
	// other one must surface on the response stream
	procGot := map[string][]string{}
	var pmu sync.Mutex
	var pwg sync.WaitGroup
	for pcaller := 0; pcaller < 2 && c.ProcCalls > 0; pcaller++ {
		pwg.Add(1)
		go func(pcaller int) {
			defer pwg.Done()
			for n := 0; n < c.ProcCalls; n++ {
				r := &lime.RequestCommand{}
				r.ID = fmt.Sprintf("P%d-%d", pcaller, n)
				r.Method = lime.CommandMethodGet
				r.SetURIString("/p")
				pctx, pcancel := context.WithTimeout(ctx, 10*time.Second)
				resp, err := cc.ProcessCommand(pctx, r)
				pcancel()
				pmu.Lock()
				if err != nil {
					procGot[r.ID] = append(procGot[r.ID], "error:"+err.Error())
				} else {
					procGot[r.ID] = append(procGot[r.ID], resp.Metadata["tag"])
				}
				pmu.Unlock()
			}
		}(pcaller)
	}
	var obs c04Obs
	var emu sync.Mutex
	var wg sync.WaitGroup
	sender := func(ch dataSender, side *c04Side, s int, salt uint64) {
		defer wg.Done()
		g := lcg(uint64(c.Seed)*2654435761 + salt + uint64(s)*97)
		for n := 0; n < c.PerSender; n++ {
			k := g.next(4)
			p := 0
			switch g.next(6) {
			case 0:
				p = 0
			case 1:
				p = c.MaxPayload - g.next(8)
			default:
				p = g.next(200)
			}
			if p < 0 {
				p = 0
			}
			if k == 1 && p > 1000 {
				p = 1000 // notifications carry the payload in their metadata
			}
			if err := c04Send(ctx, ch, k, s, n, p); err != nil {
				emu.Lock()
				obs.SendErrs = append(obs.SendErrs, fmt.Sprintf("%s sender %d seq %d kind %s size %d: %v", side.name, s, n, c04Kinds[k], p, err))
				emu.Unlock()
				return
			}
			side.sentOK[s] = append(side.sentOK[s], c04E{k, s, n})
			if c.Jitter && g.next(5) == 0 {
				time.Sleep(time.Duration(g.next(300)) * time.Microsecond)
			}
		}
	}
	for s := 0; s < c.CliSenders; s++ {
		wg.Add(1)
		go sender(cc, atSrv, s, 1)
	}
	for s := 0; s < c.SrvSenders; s++ {
		wg.Add(1)
		go sender(sc, atCli, s, 2)
	}
	sendersDone := make(chan struct{})
	go func() { wg.Wait(); pwg.Wait(); close(sendersDone) }()
	select {
	case <-sendersDone:
	case <-time.After(45 * time.Second):
		obs.Note = "senders did not finish within 45 s (deadlock?)"
	}
	total := func(side *c04Side) int {
		n := 0
		for _, l := range side.sentOK {
			n += len(l)
		}
		return n
	}
	if obs.Note == "" {
		deadline := time.Now().Add(15 * time.Second)
		for time.Now().Before(deadline) {
			if int(atomic.LoadInt64(&atSrv.count)) >= total(atSrv) && int(atomic.LoadInt64(&atCli.count)) >= total(atCli) {
				break
			}
			time.Sleep(200 * time.Microsecond)
		}
		time.Sleep(2 * time.Millisecond) // anything delivered twice would show up now
	}
	// every answer to a ProcessCommand request arrives exactly once: at the caller or on the stream
	if c.ProcCalls > 0 && obs.Note == "" {
		deadline := time.Now().Add(3 * time.Second)
		complete := func() (string, bool) {
			pmu.Lock()
			defer pmu.Unlock()
			atCli.mu.Lock()
			defer atCli.mu.Unlock()
			for id, viaCall := range procGot {
				all := append(append([]string{}, viaCall...), atCli.procStream[id]...)
				ones, twos := 0, 0
				for _, t := range all {
					switch t {
					case "1":
						ones++
					case "2":
						twos++
					default:
						return fmt.Sprintf("fabricated: request %s got %q", id, t), true
					}
				}
				if ones > 1 || twos > 1 {
					return fmt.Sprintf("duplicated: the answers to request %s arrived as %v at the caller and %v on the stream", id, viaCall, atCli.procStream[id]), true
				}
				if ones+twos < 2 {
					return fmt.Sprintf("lost: request %s was answered twice; the caller got %v, the response stream %v", id, viaCall, atCli.procStream[id]), false
				}
			}
			return "", true
		}
		what, final := complete()
		for what != "" && !final && time.Now().Before(deadline) {
			time.Sleep(200 * time.Microsecond)
			what, final = complete()
		}
		if what != "" {
			e.Rep.Violate("impl", "c04-"+strings.SplitN(what, ":", 2)[0], "responses to ProcessCommand: "+what, map[string]interface{}{"case": c})
		}
		e.Rep.Count("runs with ProcessCommand callers answered twice")
	}
	obs.Sent = [2]int{total(atSrv), total(atCli)}
	obs.Got = [2]int{int(atomic.LoadInt64(&atSrv.count)), int(atomic.LoadInt64(&atCli.count))}
	cancel()
	go cc.Close()
	go sc.Close()
	info := map[string]interface{}{"case": c, "obs": obs}
	if len(obs.SendErrs) > 0 {
		e.Rep.Violate("impl", "c04-send-failed", "a send on a healthy established session failed: "+obs.SendErrs[0], info)
	}
	if obs.Note != "" {
		e.Rep.Violate("impl", "c04-stuck", obs.Note, info)
		return nil
	}
	for di, side := range []*c04Side{atSrv, atCli} {
		side.mu.Lock()
		dir := []string{"client->server", "server->client"}[di]
		for _, cmsg := range side.corrupt {
			e.Rep.Violate("impl", "c04-corrupt", dir+": "+cmsg, info)
		}
		nS := len(side.sentOK)
		what := c04Judge(nS, side.sentOK, side.got)
		if what != "" {
			key := "c04-" + strings.SplitN(what, ":", 2)[0]
			e.Rep.Violate("impl", key, dir+": "+what, info)
		}
		if e.Drv != nil {
			var r struct {
				OK     bool `json:"ok"`
				Prefix bool `json:"prefix"`
			}
			del := make([][]c04E, 4)
			for k := 0; k < 4; k++ {
				del[k] = side.got[k]
				if del[k] == nil {
					del[k] = []c04E{}
				}
			}
			sb := make([][]c04E, nS)
			for i := range sb {
				sb[i] = side.sentOK[i]
				if sb[i] == nil {
					sb[i] = []c04E{}
				}
			}
			if err := e.Drv.Call(map[string]interface{}{"m": "chanjudge", "nS": nS, "nK": 4, "sentBy": sb, "delivered": del}, &r); err != nil {
				side.mu.Unlock()
				return err
			}
			if r.OK != (what == "") {
				e.Rep.Violate("corr", "c04-corr-judge", fmt.Sprintf("%s: the Lean judge says ok=%v, the harness judge says %q", dir, r.OK, what), info)
			}
		}
		side.mu.Unlock()
	}
	cj, _ := json.Marshal(c)
	e.Rep.Nontrivial(string(cj))
	c04ExtraMu.Lock()
	e.Rep.Extra["envelopes"] = asInt(e.Rep.Extra["envelopes"]) + obs.Sent[0] + obs.Sent[1]
	c04ExtraMu.Unlock()
	e.Rep.Sample(info, 2)
	return nil
}

// c04Judge is the statement on a finished history (the same predicate as LimeModel.Chan.judge):
// "" or "<class>: explanation" with class lost | duplicated | reordered | fabricated.
func c04Judge(nS int, sentBy [][]c04E, got [4][]c04E) string {
	for k := 0; k < 4; k++ {
		per := make([][]c04E, nS)
		for _, x := range got[k] {
			if x[0] != k || x[1] < 0 || x[1] >= nS {
				return fmt.Sprintf("fabricated: a %s envelope %v was delivered that no sender sent", c04Kinds[k], x)
			}
			per[x[1]] = append(per[x[1]], x)
		}
		for i := 0; i < nS; i++ {
			want := []c04E{}
			for _, x := range sentBy[i] {
				if x[0] == k {
					want = append(want, x)
				}
			}
			seen := map[c04E]int{}
			for _, x := range per[i] {
				seen[x]++
				if seen[x] > 1 {
					return fmt.Sprintf("duplicated: %s envelope %v of sender %d was delivered %d times", c04Kinds[k], x, i, seen[x])
				}
			}
			for j := 0; j < len(per[i]) && j < len(want); j++ {
				if per[i][j] != want[j] {
					in := false
					for _, w := range want {
						if w == per[i][j] {
							in = true
						}
					}
					if !in {
						return fmt.Sprintf("fabricated: %s envelope %v was delivered but sender %d did not send it successfully", c04Kinds[k], per[i][j], i)
					}
					if seen[want[j]] == 0 {
						return fmt.Sprintf("lost: %s envelope %v of sender %d was sent successfully and never delivered (later ones were)", c04Kinds[k], want[j], i)
					}
					return fmt.Sprintf("reordered: %s envelopes of sender %d: sent %v, delivered %v at position %d", c04Kinds[k], i, want[j], per[i][j], j)
				}
			}
			if len(per[i]) < len(want) {
				return fmt.Sprintf("lost: sender %d sent %d %s envelopes successfully, %d were delivered; first missing %v", i, len(want), c04Kinds[k], len(per[i]), want[len(per[i])])
			}
			if len(per[i]) > len(want) {
				return fmt.Sprintf("fabricated: %d %s envelopes of sender %d delivered, only %d sent", len(per[i]), c04Kinds[k], i, len(want))
			}
		}
	}
	return ""
}

func init() {
	Register("c04", func(e *Env) error {
		e.Rep.Rule = "stress runs of real established ClientChannel / ServerChannel pairs over in-process, TCP (in-memory connection and loopback socket), TCP+TLS, WebSocket and secure WebSocket transports: 1-8 sender goroutines per side, both directions at once, random kind sequences, payloads from 0 bytes to just under the configured read limit, stream buffer sizes 0/1/2/64, consumers as stream readers or mux handlers with delays 0/50us/2ms, jitter between sends; every envelope carries (sender, seq, size); the recorded history (sends that returned nil per sender; deliveries per kind) is judged by the harness predicate and by the compiled Lean judge (LimeModel.Chan.judge), which must agree. Non-trivial = every run; distinct by configuration."
		if e.Replay != "" {
			b, err := readReplayCase(e.Replay)
			if err != nil {
				return err
			}
			var wrap struct {
				Case *c04Case `json:"case"`
			}
			if err := json.Unmarshal(b, &wrap); err != nil || wrap.Case == nil {
				return fmt.Errorf("bad replay file")
			}
			for i := 0; i < 5; i++ {
				if err := c04Run(e, wrap.Case); err != nil {
					return err
				}
			}
			return nil
		}
		transports := []string{"inproc", "pipe", "pipe-tls", "tcp", "tcp-tls", "ws", "wss"}
		n := e.N(280, 6000)
		var cases []*c04Case
		for i := 0; i < n; i++ {
			c := &c04Case{Transport: transports[i%len(transports)], Seed: e.Seed*100000 + int64(i)}
			c.Buf = []int{0, 1, 2, 64}[e.Rng.Intn(4)]
			c.InprocBuf = []int{1, 2, 64}[e.Rng.Intn(3)]
			c.CliSenders = 1 + e.Rng.Intn(8)
			c.SrvSenders = 1 + e.Rng.Intn(8)
			c.Consumer = []string{"stream", "mux"}[e.Rng.Intn(2)]
			c.DelayUs = []int{0, 0, 50, 2000}[e.Rng.Intn(4)]
			c.Jitter = e.Rng.Intn(2) == 0
			c.ReadLimit = 16 * 1024
			c.MaxPayload = (int(c.ReadLimit) - 600) * 5 / 6
			if e.Thorough() && i%25 == 0 {
				c.ReadLimit = 2 * 1024 * 1024
				c.MaxPayload = 1024 * 1024
			}
			per := 400 / (c.CliSenders + c.SrvSenders)
			if c.DelayUs >= 2000 {
				per = 60 / (c.CliSenders + c.SrvSenders)
			}
			if per < 3 {
				per = 3
			}
			c.PerSender = per
			if i%3 == 0 {
				c.ProcCalls = 5 + e.Rng.Intn(20)
			}
			cases = append(cases, c)
		}
		var wg sync.WaitGroup
		sem := make(chan struct{}, 4)
		var emu sync.Mutex
		var first error
		for _, c := range cases {
			wg.Add(1)
			sem <- struct{}{}
			go func(c *c04Case) {
				defer wg.Done()
				defer func() { <-sem }()
				if err := c04Run(e, c); err != nil {
					emu.Lock()
					if first == nil {
						first = err
					}
					emu.Unlock()
				}
			}(c)
		}
		wg.Wait()
		return first
	})
}
