// Package rep collects what a harness mode covered and found, and writes it as one JSON
// document that ./check turns into the evidence file and the exit status.
package rep

import (
	"crypto/sha1"
	"encoding/json"
	"fmt"
	"os"
	"path/filepath"
	"sort"
	"sync"
)

type Violation struct {
	Kind   string      `json:"kind"`   // "impl" (property predicate fails on the code) | "corr" (model and code disagree)
	Key    string      `json:"key"`    // stable classification used by the known-findings filter
	What   string      `json:"what"`   // human readable
	Replay string      `json:"replay"` // path of the replay file
	Case   interface{} `json:"case,omitempty"`
}

type Report struct {
	mu          sync.Mutex
	Property    string                 `json:"property"`
	Mode        string                 `json:"mode"`
	Seed        int64                  `json:"seed"`
	Tier        string                 `json:"tier"`
	Evaluations int                    `json:"evaluations"`
	Distinct    map[string]struct{}    `json:"-"`
	DistinctN   int                    `json:"distinct_nontrivial"`
	Rule        string                 `json:"rule"`
	Samples     []interface{}          `json:"samples"`
	Dist        map[string]int         `json:"distribution"`
	Exhaustive  bool                   `json:"exhaustive"`
	ModelCalls  int                    `json:"model_calls"`
	Violations  []Violation            `json:"violations"`
	Notes       []string               `json:"notes,omitempty"`
	Extra       map[string]interface{} `json:"extra,omitempty"`
	ReplayDir   string                 `json:"-"`
	seenViol    map[string]int
}

func New(property, mode, tier string, seed int64) *Report {
	return &Report{Property: property, Mode: mode, Tier: tier, Seed: seed,
		Distinct: map[string]struct{}{}, Dist: map[string]int{}, seenViol: map[string]int{},
		Extra: map[string]interface{}{}, ReplayDir: "/verif/replays"}
}

func (r *Report) Eval() { r.mu.Lock(); r.Evaluations++; r.mu.Unlock() }

// Nontrivial records a canonical description of a non-trivial case; distinct ones are counted.
func (r *Report) Nontrivial(canon string) {
	h := sha1.Sum([]byte(canon))
	r.mu.Lock()
	r.Distinct[string(h[:8])] = struct{}{}
	r.mu.Unlock()
}

func (r *Report) Count(key string) { r.mu.Lock(); r.Dist[key]++; r.mu.Unlock() }

func (r *Report) Sample(s interface{}, max int) {
	r.mu.Lock()
	if len(r.Samples) < max {
		r.Samples = append(r.Samples, s)
	}
	r.mu.Unlock()
}

func (r *Report) Note(s string) { r.mu.Lock(); r.Notes = append(r.Notes, s); r.mu.Unlock() }

// Violate records a violation (at most 3 replays are kept per key) and writes the replay file.
func (r *Report) Violate(kind, key, what string, c interface{}) {
	r.mu.Lock()
	defer r.mu.Unlock()
	r.seenViol[key]++
	if r.seenViol[key] > 3 {
		return
	}
	b, _ := json.Marshal(c)
	h := sha1.Sum(append([]byte(key), b...))
	name := fmt.Sprintf("%s-%s-%x.json", r.Property, r.Mode, h[:5])
	os.MkdirAll(r.ReplayDir, 0o755)
	path := filepath.Join(r.ReplayDir, name)
	doc := map[string]interface{}{
		"property": r.Property, "mode": r.Mode, "kind": kind, "key": key, "what": what,
		"seed": r.Seed, "tier": r.Tier, "case": c,
		"replay_cmd": fmt.Sprintf("./check %s --replay %s", r.Property, path),
	}
	out, _ := json.MarshalIndent(doc, "", " ")
	os.WriteFile(path, out, 0o644)
	r.Violations = append(r.Violations, Violation{Kind: kind, Key: key, What: what, Replay: path, Case: c})
}

func (r *Report) Write(path string) error {
	r.mu.Lock()
	defer r.mu.Unlock()
	r.DistinctN = len(r.Distinct)
	if r.Violations == nil {
		r.Violations = []Violation{}
	}
	if r.Samples == nil {
		r.Samples = []interface{}{}
	}
	keys := make([]string, 0, len(r.Dist))
	for k := range r.Dist {
		keys = append(keys, k)
	}
	sort.Strings(keys)
	b, err := json.MarshalIndent(r, "", " ")
	if err != nil {
		return err
	}
	return os.WriteFile(path, b, 0o644)
}
