module limeverif

go 1.14

require (
	github.com/gorilla/websocket v1.4.2
	github.com/takenet/lime-go v0.0.0
)

replace github.com/takenet/lime-go => /repo
