// hx runs one harness mode: the real lime-go code and the compiled Lean model side by side.
package main

import (
	"flag"
	"fmt"
	"io"
	"log"
	"math/rand"
	"os"
	"sort"
	"strconv"

	"limeverif/internal/drv"
	"limeverif/internal/modes"
	"limeverif/internal/rep"
)

func main() {
	prop := flag.String("prop", "", "property id (for the report)")
	tier := flag.String("tier", "quick", "quick|thorough")
	seed := flag.Int64("seed", 1, "PRNG seed")
	out := flag.String("out", "", "report path")
	replay := flag.String("replay", "", "replay file")
	nodrv := flag.Bool("nodriver", false, "run without the model driver (impl oracle only)")
	verbose := flag.Bool("v", false, "keep the library's log output")
	flag.Parse()
	if flag.NArg() != 1 {
		names := []string{}
		for k := range modes.Registry {
			names = append(names, k)
		}
		sort.Strings(names)
		fmt.Fprintf(os.Stderr, "usage: hx [flags] <mode>; modes: %v\n", names)
		os.Exit(2)
	}
	mode := flag.Arg(0)
	m, ok := modes.Registry[mode]
	if !ok {
		fmt.Fprintf(os.Stderr, "unknown mode %s\n", mode)
		os.Exit(2)
	}
	if !*verbose {
		log.SetOutput(io.Discard)
	}
	budget := 1.0
	if b := os.Getenv("VERIF_BUDGET"); b != "" {
		if f, err := strconv.ParseFloat(b, 64); err == nil && f > 0 {
			budget = f
		}
	}
	r := rep.New(*prop, mode, *tier, *seed)
	env := &modes.Env{Tier: *tier, Seed: *seed, Rng: rand.New(rand.NewSource(*seed)), Rep: r, Replay: *replay, Budget: budget}
	if !*nodrv {
		d, err := drv.Start()
		if err != nil {
			fmt.Fprintf(os.Stderr, "hx: cannot start model driver: %v\n", err)
			os.Exit(3)
		}
		env.Drv = d
		defer d.Close()
	}
	err := m(env)
	if env.Drv != nil {
		r.ModelCalls = env.Drv.N
	}
	if *out != "" {
		if werr := r.Write(*out); werr != nil {
			fmt.Fprintf(os.Stderr, "hx: write report: %v\n", werr)
			os.Exit(3)
		}
	}
	if err != nil {
		fmt.Fprintf(os.Stderr, "hx: mode %s failed: %v\n", mode, err)
		os.Exit(3)
	}
	fmt.Printf("hx %s: evaluations=%d violations=%d\n", mode, r.Evaluations, len(r.Violations))
	if len(r.Violations) > 0 {
		os.Exit(1)
	}
}
