package main

import _ "limeverif/internal/modes"
