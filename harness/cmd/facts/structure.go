package main

import (
	"go/ast"
	"go/token"
	"strings"
)

// Structural facts about the concurrency- and I/O-critical functions. Each is a Boolean that says
// whether the source still has the shape the repaired model assumes; the Lean models take their
// `repaired` switches from them (LimeModel/*.lean) and Props/Tie.lean proves them all true.

// exprString renders selector chains and identifiers ("c.processingCmdsMu.Lock").
func exprString(e ast.Expr) string {
	switch x := e.(type) {
	case *ast.Ident:
		return x.Name
	case *ast.SelectorExpr:
		return exprString(x.X) + "." + x.Sel.Name
	case *ast.CallExpr:
		return exprString(x.Fun) + "()"
	case *ast.StarExpr:
		return "*" + exprString(x.X)
	case *ast.IndexExpr:
		return exprString(x.X) + "[]"
	case *ast.SliceExpr:
		return exprString(x.X) + "[:]"
	case *ast.UnaryExpr:
		return x.Op.String() + exprString(x.X)
	}
	return "?"
}

// callsIn lists the rendered callee of every call in n, in source order.
func callsIn(n ast.Node) []string {
	out := []string{}
	ast.Inspect(n, func(x ast.Node) bool {
		if c, ok := x.(*ast.CallExpr); ok {
			out = append(out, exprString(c.Fun))
		}
		return true
	})
	return out
}

func indexOf(l []string, s string) int {
	for i, x := range l {
		if x == s {
			return i
		}
	}
	return -1
}

func count(l []string, s string) int {
	n := 0
	for _, x := range l {
		if x == s {
			n++
		}
	}
	return n
}

// sendSessionUnderSendMu: sendSession takes c.sendMu before it calls c.transport.Send.
func sendSessionUnderSendMu(fd *ast.FuncDecl) bool {
	cs := callsIn(fd.Body)
	l, s := indexOf(cs, "c.sendMu.Lock"), indexOf(cs, "c.transport.Send")
	return l >= 0 && s >= 0 && l < s
}

// pendingLookupDeleteOneRegion: trySubmitCommandResult locks the table once, and both the look-up
// and the delete are between that lock and its unlock.
func pendingLookupDeleteOneRegion(fd *ast.FuncDecl) bool {
	cs := callsIn(fd.Body)
	locks := count(cs, "c.processingCmdsMu.Lock") + count(cs, "c.processingCmdsMu.RLock")
	if locks != 1 {
		return false
	}
	// order of the statements in the body: Lock ... (index c.processingCmds) ... delete ... Unlock
	var pos []string
	ast.Inspect(fd.Body, func(x ast.Node) bool {
		switch n := x.(type) {
		case *ast.CallExpr:
			pos = append(pos, exprString(n.Fun))
		case *ast.IndexExpr:
			if exprString(n.X) == "c.processingCmds" {
				pos = append(pos, "lookup")
			}
		}
		return true
	})
	lk, lu, del := indexOf(pos, "c.processingCmdsMu.Lock"), indexOf(pos, "lookup"), indexOf(pos, "delete")
	ul := indexOf(pos, "c.processingCmdsMu.Unlock")
	return lk >= 0 && lu > lk && del > lk && ul > del && ul > lu
}

// pendingCleanupConditional: every delete from the table in processCommand's deferred clean-up is
// inside an if that compares the table entry with the caller's own reply channel.
func pendingCleanupConditional(fd *ast.FuncDecl) bool {
	found, ok := false, true
	ast.Inspect(fd.Body, func(x ast.Node) bool {
		ds, isDefer := x.(*ast.DeferStmt)
		if !isDefer {
			return true
		}
		fl, isLit := ds.Call.Fun.(*ast.FuncLit)
		if !isLit {
			return true
		}
		var walk func(n ast.Node, guarded bool)
		walk = func(n ast.Node, guarded bool) {
			ast.Inspect(n, func(y ast.Node) bool {
				switch s := y.(type) {
				case *ast.IfStmt:
					g := guarded
					if be, isBin := s.Cond.(*ast.BinaryExpr); isBin && be.Op == token.EQL &&
						strings.Contains(exprString(be.X)+exprString(be.Y), "c.processingCmds[]") {
						g = true
					}
					walk(s.Body, g)
					if s.Else != nil {
						walk(s.Else, guarded)
					}
					return false
				case *ast.CallExpr:
					if exprString(s.Fun) == "delete" {
						found = true
						if !guarded {
							ok = false
						}
					}
				}
				return true
			})
		}
		walk(fl.Body, false)
		return false
	})
	return found && ok
}

// writeResumesAfterShortWrite: ctxConn.Write re-slices its buffer parameter from a lower bound (b[n:],
// directly as the argument of conn.Write, through a local, or by b = b[n:]) — it goes on with the rest
// after a short write instead of handing the whole buffer over again.
func writeResumesAfterShortWrite(fd *ast.FuncDecl) bool {
	if fd.Type == nil || fd.Type.Params == nil || len(fd.Type.Params.List) == 0 || len(fd.Type.Params.List[0].Names) == 0 {
		return false
	}
	buf := fd.Type.Params.List[0].Names[0].Name
	res := false
	ast.Inspect(fd.Body, func(x ast.Node) bool {
		if se, ok := x.(*ast.SliceExpr); ok && se.Low != nil && exprString(se.X) == buf {
			res = true
		}
		return true
	})
	return res && indexOf(callsIn(fd.Body), "c.conn.Write") >= 0
}

// readBudgetRearmed: Receive sets (not adds to) limitedReader.N from ReadLimit after a decode.
func readBudgetRearmed(fd *ast.FuncDecl) bool {
	res := false
	ast.Inspect(fd.Body, func(x ast.Node) bool {
		as, ok := x.(*ast.AssignStmt)
		if !ok || len(as.Lhs) != 1 || len(as.Rhs) != 1 {
			return true
		}
		if exprString(as.Lhs[0]) == "t.limitedReader.N" && exprString(as.Rhs[0]) == "t.ReadLimit" && as.Tok == token.ASSIGN {
			res = true
		}
		return true
	})
	return res
}

// readBudgetRenewedPerValue: in Receive the budget is renewed on every path on which Decode took a
// complete value off the stream, not only when it returned no error. Read as: the first statement at
// the top level of the body that assigns `limitedReader.N` from `ReadLimit` comes before the first
// top-level `if` that returns (the error return that follows Decode), and is not itself under a
// condition that is just `err == nil`.
func readBudgetRenewedPerValue(fd *ast.FuncDecl) bool {
	if fd.Body == nil {
		return false
	}
	isRenewal := func(n ast.Node) bool {
		found := false
		ast.Inspect(n, func(x ast.Node) bool {
			if as, ok := x.(*ast.AssignStmt); ok && len(as.Lhs) == 1 && len(as.Rhs) == 1 &&
				exprString(as.Lhs[0]) == "t.limitedReader.N" && exprString(as.Rhs[0]) == "t.ReadLimit" && as.Tok == token.ASSIGN {
				found = true
			}
			return true
		})
		return found
	}
	hasReturn := func(n ast.Node) bool {
		found := false
		ast.Inspect(n, func(x ast.Node) bool {
			if _, ok := x.(*ast.ReturnStmt); ok {
				found = true
			}
			return true
		})
		return found
	}
	seenDecode := false
	for _, st := range fd.Body.List {
		if indexOf(callsIn(st), "t.decoder.Decode") >= 0 {
			seenDecode = true
		}
		if is, ok := st.(*ast.IfStmt); ok {
			if hasReturn(is.Body) {
				if seenDecode {
					return false // an error return after Decode comes first
				}
				continue
			}
			if isRenewal(is.Body) {
				// `if err == nil { renew }` is the unrepaired policy in another spelling
				if be, ok := is.Cond.(*ast.BinaryExpr); ok && be.Op == token.EQL && exprString(be.X) == "err" && exprString(be.Y) == "nil" {
					return false
				}
				return true
			}
			continue
		}
		if isRenewal(st) {
			return true
		}
	}
	return false
}

// receiverClosesOnError: in receiveFromTransport the error branch after transport.Receive closes
// the transport.
func receiverClosesOnError(fd *ast.FuncDecl) bool {
	res := false
	ast.Inspect(fd.Body, func(x ast.Node) bool {
		is, ok := x.(*ast.IfStmt)
		if !ok {
			return true
		}
		be, isBin := is.Cond.(*ast.BinaryExpr)
		if !isBin || be.Op != token.NEQ || exprString(be.X) != "err" {
			return true
		}
		if indexOf(callsIn(is.Body), "c.transport.Close") >= 0 {
			res = true
		}
		return true
	})
	return res
}

// receiverClosesOnOddSession: the session branch of receiveFromTransport closes the transport when
// the client's state is still established after the envelope was handed over.
func receiverClosesOnOddSession(fd *ast.FuncDecl) bool {
	res := false
	ast.Inspect(fd.Body, func(x ast.Node) bool {
		is, ok := x.(*ast.IfStmt)
		if !ok {
			return true
		}
		cond := ""
		ast.Inspect(is.Cond, func(y ast.Node) bool {
			if id, ok := y.(*ast.Ident); ok {
				cond += id.Name + " "
			}
			return true
		})
		if strings.Contains(cond, "client") && strings.Contains(cond, "SessionStateEstablished") &&
			indexOf(callsIn(is.Body), "c.transport.Close") >= 0 {
			res = true
		}
		return true
	})
	return res
}

// wsForcesUnderlyingDeadline: websocketTransport.Send sets the write deadline on the underlying
// network connection when its context ends.
func wsForcesUnderlyingDeadline(fd *ast.FuncDecl) bool {
	return indexOf(callsIn(fd.Body), "conn.UnderlyingConn().SetWriteDeadline") >= 0
}

// finishDrainsTerminalState: receiveSession takes a pending session envelope from the session
// stream in the finished (terminal) state before it gives up.
func finishDrainsTerminalState(fd *ast.FuncDecl) bool {
	res := false
	ast.Inspect(fd.Body, func(x ast.Node) bool {
		cc, ok := x.(*ast.CaseClause)
		if !ok {
			return true
		}
		names := ""
		for _, e := range cc.List {
			names += exprString(e) + " "
		}
		if !strings.Contains(names, "SessionStateFinished") {
			return true
		}
		for _, st := range cc.Body {
			ast.Inspect(st, func(y ast.Node) bool {
				if u, ok := y.(*ast.UnaryExpr); ok && u.Op == token.ARROW && exprString(u.X) == "c.inSesChan" {
					res = true
				}
				return true
			})
		}
		return true
	})
	return res
}

// serveReturnsClosedAfterClose: ListenAndServe decides on the server's own context whether it was closed.
func serveReturnsClosedAfterClose(fd *ast.FuncDecl) bool {
	res := false
	ast.Inspect(fd.Body, func(x ast.Node) bool {
		is, ok := x.(*ast.IfStmt)
		if !ok {
			return true
		}
		if strings.Contains(strings.Join(callsIn(is.Cond), " "), "srvCtx.Err") {
			for _, st := range is.Body.List {
				if r, isRet := st.(*ast.ReturnStmt); isRet && len(r.Results) == 1 && exprString(r.Results[0]) == "ErrServerClosed" {
					res = true
				}
			}
		}
		return true
	})
	return res
}

// muxLoopShape: handleX is exactly the loop the Mux model transcribes —
//   for _, h := range m.<field> { if !h.Match(x) { continue }; if err := h.Handle(...); err != nil { return <error> }; break }; return nil
func muxLoopShape(fd *ast.FuncDecl, field string) bool {
	if fd.Body == nil || len(fd.Body.List) != 2 {
		return false
	}
	rs, ok := fd.Body.List[0].(*ast.RangeStmt)
	if !ok || exprString(rs.X) != "m."+field || rs.Value == nil || rs.Body == nil || len(rs.Body.List) != 3 {
		return false
	}
	if k, isId := rs.Key.(*ast.Ident); !isId || k.Name != "_" {
		return false
	}
	h := exprString(rs.Value)
	// if !h.Match(x) { continue }
	skip, ok := rs.Body.List[0].(*ast.IfStmt)
	if !ok || skip.Init != nil || skip.Else != nil || len(skip.Body.List) != 1 {
		return false
	}
	neg, ok := skip.Cond.(*ast.UnaryExpr)
	if !ok || neg.Op != token.NOT {
		return false
	}
	mc, ok := neg.X.(*ast.CallExpr)
	if !ok || exprString(mc.Fun) != h+".Match" || len(mc.Args) != 1 {
		return false
	}
	if br, isBr := skip.Body.List[0].(*ast.BranchStmt); !isBr || br.Tok != token.CONTINUE || br.Label != nil {
		return false
	}
	// if err := h.Handle(...); err != nil { return <non-nil> }
	hd, ok := rs.Body.List[1].(*ast.IfStmt)
	if !ok || hd.Init == nil || hd.Else != nil || len(hd.Body.List) != 1 {
		return false
	}
	as, ok := hd.Init.(*ast.AssignStmt)
	if !ok || len(as.Lhs) != 1 || len(as.Rhs) != 1 {
		return false
	}
	hc, ok := as.Rhs[0].(*ast.CallExpr)
	if !ok || exprString(hc.Fun) != h+".Handle" {
		return false
	}
	// the envelope handed to Handle is the one Match was asked about
	found := false
	for _, a := range hc.Args {
		if exprString(a) == exprString(mc.Args[0]) && exprString(a) != "?" {
			found = true
		}
	}
	if !found {
		return false
	}
	cond, ok := hd.Cond.(*ast.BinaryExpr)
	if !ok || cond.Op != token.NEQ || exprString(cond.X) != exprString(as.Lhs[0]) || exprString(cond.Y) != "nil" {
		return false
	}
	ret, ok := hd.Body.List[0].(*ast.ReturnStmt)
	if !ok || len(ret.Results) != 1 || exprString(ret.Results[0]) == "nil" {
		return false
	}
	// break
	if br, isBr := rs.Body.List[2].(*ast.BranchStmt); !isBr || br.Tok != token.BREAK || br.Label != nil {
		return false
	}
	// return nil
	last, ok := fd.Body.List[1].(*ast.ReturnStmt)
	return ok && len(last.Results) == 1 && exprString(last.Results[0]) == "nil"
}

// nilPredicateMatches: Match is `if h.predicate == nil { return true }; return h.predicate(x)` with x the parameter.
func nilPredicateMatches(fd *ast.FuncDecl) bool {
	if fd.Body == nil || len(fd.Body.List) != 2 || fd.Recv == nil || len(fd.Recv.List) != 1 || len(fd.Recv.List[0].Names) != 1 {
		return false
	}
	if fd.Type.Params == nil || len(fd.Type.Params.List) != 1 || len(fd.Type.Params.List[0].Names) != 1 {
		return false
	}
	r, x := fd.Recv.List[0].Names[0].Name, fd.Type.Params.List[0].Names[0].Name
	is, ok := fd.Body.List[0].(*ast.IfStmt)
	if !ok || is.Init != nil || is.Else != nil || len(is.Body.List) != 1 {
		return false
	}
	c, ok := is.Cond.(*ast.BinaryExpr)
	if !ok || c.Op != token.EQL || exprString(c.X) != r+".predicate" || exprString(c.Y) != "nil" {
		return false
	}
	rt, ok := is.Body.List[0].(*ast.ReturnStmt)
	if !ok || len(rt.Results) != 1 || exprString(rt.Results[0]) != "true" {
		return false
	}
	last, ok := fd.Body.List[1].(*ast.ReturnStmt)
	if !ok || len(last.Results) != 1 {
		return false
	}
	call, ok := last.Results[0].(*ast.CallExpr)
	return ok && exprString(call.Fun) == r+".predicate" && len(call.Args) == 1 && exprString(call.Args[0]) == x
}

func leanBool(b bool) string {
	if b {
		return "true"
	}
	return "false"
}
