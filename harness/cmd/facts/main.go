// facts re-reads the lime-go sources with go/ast and writes the Lean file the model's tables and
// constants are defined from (LimeModel/Generated.lean). If a construct it expects is gone it
// fails, which ./check reports as a broken tie for the properties that use the fact.
package main

import (
	"flag"
	"fmt"
	"go/ast"
	"go/parser"
	"go/token"
	"os"
	"path/filepath"
	"reflect"
	"sort"
	"strconv"
	"strings"
)

type pkgInfo struct {
	fset  *token.FileSet
	files map[string]*ast.File
}

func fail(format string, a ...interface{}) {
	fmt.Fprintf(os.Stderr, "facts: "+format+"\n", a...)
	os.Exit(1)
}

// missing records a construct the extractor no longer finds. The fact is then emitted with an empty /
// zero value, so that only the tie theorems (and with them the properties) that rest on it stop
// checking; the note goes to stderr and into Generated.lean.
var missingNotes []string

func missing(format string, a ...interface{}) {
	m := fmt.Sprintf(format, a...)
	fmt.Fprintf(os.Stderr, "facts: not found: %s\n", m)
	missingNotes = append(missingNotes, m)
}

func load(repo string) *pkgInfo {
	p := &pkgInfo{fset: token.NewFileSet(), files: map[string]*ast.File{}}
	names, _ := filepath.Glob(filepath.Join(repo, "*.go"))
	for _, n := range names {
		if strings.HasSuffix(n, "_test.go") || strings.HasPrefix(filepath.Base(n), "verif_") {
			continue
		}
		f, err := parser.ParseFile(p.fset, n, nil, 0)
		if err != nil {
			fail("parse %s: %v", n, err)
		}
		p.files[filepath.Base(n)] = f
	}
	return p
}

// typedStringConsts returns ident -> string for `X = T("lit")` constants of type name T.
func (p *pkgInfo) typedStringConsts(typ string) map[string]string {
	out := map[string]string{}
	for _, f := range p.files {
		for _, d := range f.Decls {
			gd, ok := d.(*ast.GenDecl)
			if !ok || gd.Tok != token.CONST {
				continue
			}
			for _, s := range gd.Specs {
				vs := s.(*ast.ValueSpec)
				for i, n := range vs.Names {
					if i >= len(vs.Values) {
						continue
					}
					call, ok := vs.Values[i].(*ast.CallExpr)
					if !ok || len(call.Args) != 1 {
						continue
					}
					if id, ok := call.Fun.(*ast.Ident); !ok || id.Name != typ {
						continue
					}
					if lit, ok := call.Args[0].(*ast.BasicLit); ok && lit.Kind == token.STRING {
						v, _ := strconv.Unquote(lit.Value)
						out[n.Name] = v
					}
				}
			}
		}
	}
	return out
}

func (p *pkgInfo) method(recv, name string) *ast.FuncDecl {
	for _, f := range p.files {
		for _, d := range f.Decls {
			fd, ok := d.(*ast.FuncDecl)
			if !ok || fd.Name.Name != name {
				continue
			}
			if recv == "" {
				if fd.Recv == nil {
					return fd
				}
				continue
			}
			if fd.Recv == nil || len(fd.Recv.List) != 1 {
				continue
			}
			t := fd.Recv.List[0].Type
			if st, ok := t.(*ast.StarExpr); ok {
				t = st.X
			}
			if id, ok := t.(*ast.Ident); ok && id.Name == recv {
				return fd
			}
		}
	}
	return nil
}

// switchCases returns, for the first switch statement in the function body, the case identifier
// lists and for each the literal returned by a `return <lit>` body (or "" when none).
func switchCases(fd *ast.FuncDecl) (cases [][]string, rets []string) {
	ast.Inspect(fd.Body, func(n ast.Node) bool {
		sw, ok := n.(*ast.SwitchStmt)
		if !ok || cases != nil {
			return true
		}
		for _, c := range sw.Body.List {
			cc := c.(*ast.CaseClause)
			ids := []string{}
			for _, e := range cc.List {
				if id, ok := e.(*ast.Ident); ok {
					ids = append(ids, id.Name)
				}
			}
			ret := ""
			for _, st := range cc.Body {
				if rs, ok := st.(*ast.ReturnStmt); ok && len(rs.Results) == 1 {
					switch v := rs.Results[0].(type) {
					case *ast.BasicLit:
						ret = v.Value
					case *ast.Ident:
						ret = v.Name
					case *ast.UnaryExpr:
						if bl, ok := v.X.(*ast.BasicLit); ok {
							ret = v.Op.String() + bl.Value
						}
					}
				}
			}
			cases = append(cases, ids)
			rets = append(rets, ret)
		}
		return false
	})
	return
}

func leanStr(s string) string { return strconv.Quote(s) }

func leanStrList(l []string) string {
	q := make([]string, len(l))
	for i, s := range l {
		q[i] = leanStr(s)
	}
	return "[" + strings.Join(q, ", ") + "]"
}

// structFields returns (goName, jsonName, omitempty, shape) for a struct type declaration.
func (p *pkgInfo) structFields(name string) [][4]string {
	for _, f := range p.files {
		for _, d := range f.Decls {
			gd, ok := d.(*ast.GenDecl)
			if !ok || gd.Tok != token.TYPE {
				continue
			}
			for _, s := range gd.Specs {
				ts := s.(*ast.TypeSpec)
				if ts.Name.Name != name {
					continue
				}
				st, ok := ts.Type.(*ast.StructType)
				if !ok {
					return nil
				}
				out := [][4]string{}
				for _, fl := range st.Fields.List {
					if len(fl.Names) == 0 {
						continue
					}
					jsonName, omit := fl.Names[0].Name, false
					if fl.Tag != nil {
						tag, _ := strconv.Unquote(fl.Tag.Value)
						j := reflect.StructTag(tag).Get("json")
						parts := strings.Split(j, ",")
						if parts[0] != "" {
							jsonName = parts[0]
						}
						for _, o := range parts[1:] {
							if o == "omitempty" {
								omit = true
							}
						}
					}
					shape := "value"
					switch t := fl.Type.(type) {
					case *ast.StarExpr:
						shape = "ptr"
						_ = t
					case *ast.ArrayType:
						shape = "slice"
					case *ast.MapType:
						shape = "map"
					}
					for _, n := range fl.Names {
						out = append(out, [4]string{n.Name, jsonName, strconv.FormatBool(omit), shape})
					}
				}
				return out
			}
		}
	}
	return nil
}

// splitSeps finds the separator literals passed to strings.Split inside a function, in order.
func splitSeps(fd *ast.FuncDecl) []string {
	out := []string{}
	ast.Inspect(fd.Body, func(n ast.Node) bool {
		call, ok := n.(*ast.CallExpr)
		if !ok {
			return true
		}
		sel, ok := call.Fun.(*ast.SelectorExpr)
		if !ok || sel.Sel.Name != "Split" {
			return true
		}
		if x, ok := sel.X.(*ast.Ident); !ok || x.Name != "strings" {
			return true
		}
		if len(call.Args) == 2 {
			if lit, ok := call.Args[1].(*ast.BasicLit); ok {
				v, _ := strconv.Unquote(lit.Value)
				out = append(out, v)
			}
		}
		return true
	})
	return out
}

// durationsIn finds `<n> * time.Second` literals (in order of appearance) in a function body.
func durationsIn(fd *ast.FuncDecl) []string {
	out := []string{}
	ast.Inspect(fd.Body, func(n ast.Node) bool {
		be, ok := n.(*ast.BinaryExpr)
		if !ok || be.Op != token.MUL {
			return true
		}
		lit, ok1 := be.X.(*ast.BasicLit)
		sel, ok2 := be.Y.(*ast.SelectorExpr)
		if ok1 && ok2 && sel.Sel.Name == "Second" {
			out = append(out, lit.Value)
		}
		return true
	})
	return out
}

// envelopeTypeOrder renders the decision list of rawEnvelope.envelopeType as the sequence of
// (required non-nil fields → kind) in source order.
func envelopeTypeOrder(fd *ast.FuncDecl) [][2]string {
	out := [][2]string{}
	var walk func(stmts []ast.Stmt, conds []string)
	condFields := func(e ast.Expr) []string {
		fs := []string{}
		ast.Inspect(e, func(n ast.Node) bool {
			be, ok := n.(*ast.BinaryExpr)
			if ok && be.Op == token.NEQ {
				if sel, ok := be.X.(*ast.SelectorExpr); ok {
					if id, ok := be.Y.(*ast.Ident); ok && id.Name == "nil" {
						fs = append(fs, sel.Sel.Name)
					}
				}
			}
			return true
		})
		return fs
	}
	walk = func(stmts []ast.Stmt, conds []string) {
		for _, st := range stmts {
			switch s := st.(type) {
			case *ast.IfStmt:
				walk(s.Body.List, append(append([]string{}, conds...), condFields(s.Cond)...))
			case *ast.ReturnStmt:
				if len(s.Results) == 2 {
					if lit, ok := s.Results[0].(*ast.BasicLit); ok && lit.Value != `""` {
						v, _ := strconv.Unquote(lit.Value)
						out = append(out, [2]string{strings.Join(conds, ","), v})
					}
				}
			}
		}
	}
	walk(fd.Body.List, nil)
	return out
}

func main() {
	repo := flag.String("repo", "/repo", "repository root")
	outp := flag.String("out", "", "output Lean file")
	flag.Parse()
	p := load(*repo)
	var b strings.Builder
	b.WriteString("/-! GENERATED by harness/cmd/facts from the lime-go sources on every check run. Do not edit. -/\n")
	b.WriteString("namespace LimeModel.Generated\n\n")

	// --- SessionState members, Step table ---
	ss := p.typedStringConsts("SessionState")
	stepFn := p.method("SessionState", "Step")
	var cases [][]string
	var rets []string
	if stepFn == nil || len(ss) == 0 {
		missing("SessionState constants or Step()")
	} else {
		cases, rets = switchCases(stepFn)
	}
	b.WriteString("/-- `SessionState.Step`: text form ↦ step number, in source order. -/\n")
	items := []string{}
	for i, ids := range cases {
		for _, id := range ids {
			v, ok := ss[id]
			if !ok {
				missing("Step(): unknown case %s", id)
				continue
			}
			items = append(items, fmt.Sprintf("(%s, %s)", leanStr(v), rets[i]))
		}
	}
	if len(items) == 0 {
		missing("Step(): no cases")
	}
	b.WriteString("def sessionStateStep : List (String × Int) := [" + strings.Join(items, ", ") + "]\n\n")

	emitValidate := func(typ, leanName, doc string) {
		consts := p.typedStringConsts(typ)
		fn := p.method(typ, "Validate")
		var cs [][]string
		if fn == nil {
			missing("%s.Validate", typ)
		} else {
			cs, _ = switchCases(fn)
		}
		vals := []string{}
		for _, ids := range cs {
			for _, id := range ids {
				v, ok := consts[id]
				if !ok {
					missing("%s.Validate: unknown member %s", typ, id)
					continue
				}
				vals = append(vals, v)
			}
		}
		if len(vals) == 0 {
			missing("%s.Validate: no members", typ)
		}
		b.WriteString("/-- " + doc + " -/\n")
		b.WriteString("def " + leanName + " : List String := " + leanStrList(vals) + "\n\n")
	}
	emitValidate("SessionState", "sessionStates", "members accepted by `SessionState.Validate`")
	emitValidate("NotificationEvent", "notificationEvents", "members accepted by `NotificationEvent.Validate`")
	emitValidate("CommandMethod", "commandMethods", "members accepted by `CommandMethod.Validate`")

	// other enum constants (not validated by the code)
	emitConsts := func(typ, leanName string) {
		consts := p.typedStringConsts(typ)
		vals := []string{}
		for _, v := range consts {
			vals = append(vals, v)
		}
		sort.Strings(vals)
		if len(vals) == 0 {
			missing("constants of type %s", typ)
		}
		b.WriteString("def " + leanName + " : List String := " + leanStrList(vals) + "\n\n")
	}
	emitConsts("CommandStatus", "commandStatuses")
	emitConsts("AuthenticationScheme", "authenticationSchemes")
	emitConsts("SessionEncryption", "sessionEncryptions")
	emitConsts("SessionCompression", "sessionCompressions")

	// --- struct field tables ---
	emitFields := func(typ, leanName string) {
		fs := p.structFields(typ)
		if len(fs) == 0 {
			missing("struct %s", typ)
		}
		rows := []string{}
		for _, f := range fs {
			rows = append(rows, fmt.Sprintf("(%s, %s, %s, %s)", leanStr(f[0]), leanStr(f[1]), f[2], leanStr(f[3])))
		}
		b.WriteString("/-- fields of `" + typ + "`: (Go name, JSON name, omitempty, shape) -/\n")
		b.WriteString("def " + leanName + " : List (String × String × Bool × String) :=\n  [" + strings.Join(rows, ",\n   ") + "]\n\n")
	}
	emitFields("rawEnvelope", "rawEnvelopeFields")
	emitFields("rawDocumentContainer", "rawContainerFields")
	emitFields("rawDocumentCollection", "rawCollectionFields")
	emitFields("Reason", "reasonFields")
	emitFields("PlainAuthentication", "plainAuthFields")
	emitFields("KeyAuthentication", "keyAuthFields")
	emitFields("ExternalAuthentication", "externalAuthFields")

	// --- envelope kind discrimination ---
	var order [][2]string
	if et := p.method("rawEnvelope", "envelopeType"); et != nil {
		order = envelopeTypeOrder(et)
	}
	if len(order) == 0 {
		missing("rawEnvelope.envelopeType: no decisions found")
	}
	rows := []string{}
	for _, o := range order {
		rows = append(rows, fmt.Sprintf("(%s, %s)", leanStrList(strings.Split(o[0], ",")), leanStr(o[1])))
	}
	b.WriteString("/-- `rawEnvelope.envelopeType`: ordered decision list (fields that must be non-nil ↦ kind) -/\n")
	b.WriteString("def envelopeTypeOrder : List (List String × String) :=\n  [" + strings.Join(rows, ",\n   ") + "]\n\n")

	// --- separators ---
	sep := func(fn string, n int) []string {
		fd := p.method("", fn)
		if fd == nil {
			missing("%s", fn)
			return nil
		}
		s := splitSeps(fd)
		if len(s) != n {
			missing("%s: expected %d strings.Split calls, found %d", fn, n, len(s))
			return nil
		}
		return s
	}
	b.WriteString("def identitySeps : List String := " + leanStrList(sep("ParseIdentity", 1)) + "\n")
	b.WriteString("def nodeSeps : List String := " + leanStrList(sep("ParseNode", 1)) + "\n")
	b.WriteString("def mediaTypeSeps : List String := " + leanStrList(sep("ParseMediaType", 2)) + "\n\n")

	// --- constants ---
	found := false
	for _, f := range p.files {
		for _, d := range f.Decls {
			gd, ok := d.(*ast.GenDecl)
			if !ok || gd.Tok != token.CONST {
				continue
			}
			for _, s := range gd.Specs {
				vs := s.(*ast.ValueSpec)
				if vs.Names[0].Name == "DefaultReadLimit" && len(vs.Values) == 1 {
					if be, ok := vs.Values[0].(*ast.BinaryExpr); ok && be.Op == token.MUL {
						x, ok1 := be.X.(*ast.BasicLit)
						y, ok2 := be.Y.(*ast.BasicLit)
						if ok1 && ok2 {
							b.WriteString("def defaultReadLimit : Nat := " + x.Value + " * " + y.Value + "\n")
							found = true
						}
					} else if bl, ok := vs.Values[0].(*ast.BasicLit); ok {
						b.WriteString("def defaultReadLimit : Nat := " + bl.Value + "\n")
						found = true
					}
				}
			}
		}
	}
	if !found {
		missing("DefaultReadLimit")
		b.WriteString("def defaultReadLimit : Nat := 0\n")
	}
	var ds []string
	if sc := p.method("tcpTransport", "setConn"); sc != nil {
		ds = durationsIn(sc)
	}
	if len(ds) != 2 {
		missing("setConn: expected the two NewCtxConn timeouts, found %v", ds)
		ds = []string{"0", "0"}
	}
	b.WriteString("/-- the read and write poll intervals handed to `NewCtxConn` in `setConn`, in seconds -/\n")
	b.WriteString("def readPollSeconds : Nat := " + ds[0] + "\n")
	b.WriteString("def writePollSeconds : Nat := " + ds[1] + "\n")
	ds = nil
	if se := p.method("tcpTransport", "SetEncryption"); se != nil {
		ds = durationsIn(se)
	}
	if len(ds) != 1 {
		missing("SetEncryption: expected one default deadline, found %v", ds)
		ds = []string{"0"}
	}
	b.WriteString("def tlsUpgradeDefaultDeadlineSeconds : Nat := " + ds[0] + "\n\n")

	// structural facts (cmd/facts/structure.go)
	need := func(recv, name string) *ast.FuncDecl {
		fd := p.method(recv, name)
		if fd == nil {
			// a renamed or removed function breaks only the properties whose model depends on it
			return &ast.FuncDecl{Body: &ast.BlockStmt{}}
		}
		return fd
	}
	b.WriteString("/-! ## structural facts about the concurrency- and I/O-critical functions -/\n")
	b.WriteString("def sendSessionUnderSendMu : Bool := " + leanBool(sendSessionUnderSendMu(need("channel", "sendSession"))) + "\n")
	b.WriteString("def pendingLookupDeleteOneRegion : Bool := " + leanBool(pendingLookupDeleteOneRegion(need("channel", "trySubmitCommandResult"))) + "\n")
	b.WriteString("def pendingCleanupConditional : Bool := " + leanBool(pendingCleanupConditional(need("channel", "processCommand"))) + "\n")
	b.WriteString("def writeResumesAfterShortWrite : Bool := " + leanBool(writeResumesAfterShortWrite(need("ctxConn", "Write"))) + "\n")
	b.WriteString("def readBudgetRearmed : Bool := " + leanBool(readBudgetRearmed(need("tcpTransport", "Receive"))) + "\n")
	b.WriteString("def readBudgetRenewedPerValue : Bool := " + leanBool(readBudgetRenewedPerValue(need("tcpTransport", "Receive"))) + "\n")
	rft := need("", "receiveFromTransport")
	b.WriteString("def receiverClosesOnError : Bool := " + leanBool(receiverClosesOnError(rft)) + "\n")
	b.WriteString("def receiverClosesOnOddSession : Bool := " + leanBool(receiverClosesOnOddSession(rft)) + "\n")
	b.WriteString("def wsForcesUnderlyingDeadline : Bool := " + leanBool(wsForcesUnderlyingDeadline(need("websocketTransport", "Send"))) + "\n")
	b.WriteString("def finishDrainsTerminalState : Bool := " + leanBool(finishDrainsTerminalState(need("channel", "receiveSession"))) + "\n")
	b.WriteString("def serveReturnsClosedAfterClose : Bool := " + leanBool(serveReturnsClosedAfterClose(need("Server", "ListenAndServe"))) + "\n")

	muxLoops, muxMatches := true, true
	for _, kv := range [][3]string{{"handleMessage", "msgHandlers", "messageHandler"}, {"handleNotification", "notHandlers", "notificationHandler"},
		{"handleRequestCommand", "reqCmdHandlers", "requestCommandHandler"}, {"handleResponseCommand", "respCmdHandlers", "responseCommandHandler"}} {
		muxLoops = muxLoops && muxLoopShape(need("EnvelopeMux", kv[0]), kv[1])
		muxMatches = muxMatches && nilPredicateMatches(need(kv[2], "Match"))
	}
	b.WriteString("def muxLoopFirstMatchBreak : Bool := " + leanBool(muxLoops) + "\n")
	b.WriteString("def muxNilPredicateMatches : Bool := " + leanBool(muxMatches) + "\n\n")

	for _, m := range missingNotes {
		b.WriteString("-- not found in the source on this run: " + strings.ReplaceAll(m, "\n", " ") + "\n")
	}
	b.WriteString("end LimeModel.Generated\n")
	if *outp == "" {
		fmt.Print(b.String())
		return
	}
	old, _ := os.ReadFile(*outp)
	if string(old) == b.String() {
		fmt.Println("facts: Generated.lean unchanged")
		return
	}
	if err := os.WriteFile(*outp, []byte(b.String()), 0o644); err != nil {
		fail("write: %v", err)
	}
	fmt.Println("facts: Generated.lean rewritten")
}
